"""C10 - heading anchors: GitHub slug rule, uniqueness, agreement with myst-anchors."""

from __future__ import annotations

import ast
import re

from ..callgraph import get_callgraph
from ..corpus import (
    Corpus,
    FunctionInfo,
    Module,
    Unsupported,
    arg_or_kw,
    dotted,
    kwarg,
    parent,
    segment,
    short,
    splice,
    unparse,
    walk_local,
)
from ..flow import EXIT, RAISE, facts, get_cfg
from ..mutant import Mutant
from ..report import Report
from .common import find_node, rule

PROP = "C10"
READY = False
TECHNIQUE = (
    "shape extraction (uniquifier loop, slug string pipeline, regex tree, title gather) from the MyST sources and from the "
    "parsed mdit_py_plugins.anchors sources, compared as values; CFG path/guard/dominance queries for the re-check of the "
    "returned slug, the depth limit, the registry reset and the slug-function handler; call-graph following of package "
    "helpers; positional kind agreement of the slug record between its writer and every reader"
)

META = {
    "explanation": (
        "Seven rules, each a structural necessary condition of the statement; the same extractors run on MyST's code and on the "
        "parsed source of mdit_py_plugins/anchors/index.py (the code behind the myst-anchors command), and values - never text - "
        "are compared. "
        "R1 uniquifier: (d) every value compute_unique_slug can return is a name that crossed a `name not in taken` edge on every "
        "CFG path after its last definition (a string assembled in the return statement, a one-shot suffix, a bounded retry or a "
        "counter fast path violate it); (a) the candidate rebuilt in the loop is <base><separator><counter> with a base that has "
        "no definition inside the loop; (b) (separator, first suffix, step) equal the plugin's; (c) the registry handed to the "
        "uniquifier is the one that receives `[slug] = record`, not under a truthiness test of the slug ('' is a legal slug); (e) that registry is assigned an empty dict on every path of a "
        "method that render() always runs (not only in __init__); (f) no code reached from the token handlers or nested renders "
        "(nested functions included) empties the registry attribute or puts back an earlier snapshot of it. "
        "R2 slug function, title and CLI: (a) myst-anchors gives the renderer's own default slug function to anchors_plugin "
        "(slug_func=...); if it relies on the plugin's slugify instead, the two pipelines must be equal operation by operation. "
        "The regex of the default slug function (parsed tree with canonical class order, flags) equals the plugin's transcription "
        "of GitHub's rule, and because Python's \\w lacks part of Ruby's \\p{Word}, the replacement must be a callable that keeps "
        "combining marks (M*) and ZWNJ/ZWJ and deletes the rest; the remaining difference of \\w to \\p{Word} (No kept, Pc other than "
        "'_' removed) is reported as a known finding while the class is built on \\w; (b) the ordered str-method pipeline (locals inlined, idempotent "
        "duplicates collapsed, strip/lower commute) is lower-case, spaces to hyphens, punctuation removed - compared with the "
        "plugin's, whose own strip() is only required while the CLI still slugs with the plugin's function; (c) the title is "
        "gathered - as a comprehension, an append/join loop, a `+=` loop or in a package helper - from the same attribute of the "
        "same token types of the `.children` of the inline token at the same offset as in the plugin, that gather is the only "
        "source of the title, and the slug function is applied to it; (d) the CLI installs the plugin with the level it filters "
        "by (inclusive), that level does not pass through a truthiness default (depth 0 is legal), its output filter tests "
        "heading-ness and depth only, a named input is decoded with a BOM-dropping encoding or, like the text read from sys.stdin, "
        "loses a leading U+FEFF on the data flow into parser.render (removeprefix/lstrip/replace/startswith-slice, followed through "
        "local names and helper parameters), it calls the configuration merge the front ends call (reported: known finding), it "
        "builds its parser through the factory family both front ends use with no tokenisation-relevant configuration field "
        "overridden, and switches no syntax rule afterwards (the command's helpers in cli.py are followed); (e) either the CLI "
        "renders with a DocutilsRenderer subclass, or the slug computation is not reachable from nested_render_text - otherwise "
        "headings in directive bodies / includes / substitutions consume suffixes the CLI never sees (reported: known finding). "
        "R3 the slug computation is dominated by a fact equivalent to level <= heading_anchors (guards at the call sites one level "
        "up are accepted), and the membership validator of MdParserConfig.heading_anchors (literal collection or constant range, "
        "evaluated statically) admits every depth 0-7 the property quantifies over. "
        "R4 the configured slug function wins when set and is called; the call is under except Exception/BaseException/bare; "
        "all paths through that handler issue exactly one HEADING_SLUG warning (helpers that warn on all their paths are "
        "followed), no other warning, store nothing into the registry or node['slug'], and cannot raise; every normal path from the "
        "call of the slug function to the exit of compute_unique_slug crosses an edge on which isinstance(result, str) - str only - "
        "holds (asserts do not count), and no normal return depends on the result being truthy ('' is a legal slug); the configuration field that "
        "feeds the slug function is marked global_only and merge_file_level reaches setattr/validate_field only behind a negative "
        "global_only test (a document cannot choose the function that computes its own anchors); a configuration object that is "
        "stored on the Sphinx environment drops the slug function from its pickled state (__getstate__), so that a function "
        "defined in conf.py can be configured at all, and __getstate__ modifies only a copy of the instance dict, never the "
        "instance (Sphinx keeps using the environment after pickling it). "
        "R5 the record stored per slug is classified by its expressions (LINE, ID, TITLE); its id is read from the registered "
        "`ids` of the node, not recomputed with make_id / a name normaliser (docutils de-duplicates registered ids); every reader of every publication "
        "channel of the registry (document attribute, env.metadata key, per-document map in an attribute) takes fields out by "
        "tuple unpacking, record variable, .get, positional index or .items()/.values() loops; the ID position must reach an id "
        "sink (['refid'], make_refnode targetid, refid=/targetid= keywords), only the TITLE position a text sink, also through "
        "package helpers and `a or b` / conditional copies; and the key under which a reader searches the table (subscript, "
        ".get, membership test; names and package helpers resolved) is not passed through a many-to-one mapping (docutils name "
        "normalisers, make_id, case folding, Unicode normalisation, re-slugging), because the writer records each slug exactly "
        "as the - possibly custom, case-preserving - slug function returned it; the same holds for the fragment the renderer of id "
        "links stores (`id_link` + `refuri`). "
        "R6 in the function that resolves '#anchor' links from the slug table, any table consulted earlier is filled - in place or "
        "in the helper that returns it - only under docutils' explicit flag (value of nametypes.items() or nametypes[name]), and "
        "never with an entry computed from a record of the slug table (a cached slug hit): "
        "implicit section names, which derive from the same titles as the slugs, never pre-empt a slug. "
        "R7 the plugin behind myst-anchors (re-verified on its parsed source) calls its slug function on the joined title as it is, "
        "with no step of its own in between; therefore the function that cli.py installs as slug_func (or the plugin's slugify "
        "when it installs none) contains, in its own str/regex pipeline, every step of the documented rule as transcribed in the "
        "plugin's slugify - lower(), replace(' ', '-') and a regex substitution. A step that is moved out of that function into "
        "its caller in the renderer (compute_unique_slug folding the case before calling the default) leaves rendering intact and "
        "silently changes what myst-anchors prints; R7 is decided without looking at how compute_unique_slug selects its function."
    ),
    "not_decided": (
        "actual slug values for concrete titles and per-document equality of rendered anchors with the CLI output (needs the "
        "documents); behaviour of a user-supplied slug function; headings whose level was shifted by an include's heading-offset "
        "(the CLI does not process includes) and whether that offset is restored after the nested render (C05/C06/C15); explicit targets that deliberately shadow a slug of the same name (documented "
        "priority, C09); how the configuration values heading_anchors / heading_slug_func reach the renderer (validation and "
        "file-level merge: C13); survival of the published slug table across Sphinx parallel workers (C15); the warning issued "
        "for a missing cross-document anchor (C12); the CLI is compared with a default-configured render only (it cannot see conf.py); "
        "the exact category boundaries of GitHub's \\p{Word} beyond M*, the join controls, No and Pc (the references disagree on Nl); "
        "configuration that a build takes from conf.py / docutils.conf, which myst-anchors cannot see; "
        "the percent-encoding markdown-it applies to a link fragment before it reaches the resolver (non-ASCII anchors), and key "
        "transformations other than the tabled many-to-one mappings"
    ),
    "trusted_base": [
        "CPython ast and re._parser",
        "the installed mdit_py_plugins/anchors/index.py as the oracle for the documented GitHub rule",
        "the engine's call graph (helper following) and CFG (guards, dominance, path counts)",
    ],
    "assumptions": [
        "markdown-it gives heading_open/inline/heading_close triples, so index 1 of to_tokens() is the inline token",
        "str.strip and str.lower commute (case mapping never creates or removes white space)",
        "docutils' document.nametypes maps a name to True exactly for explicit targets",
        "config fields that create_md_parser (and its wrappers) read are the ones that can change tokenisation; words_per_minute "
        "only feeds the word-count plugin (re-verified on every run)",
        "a MarkdownIt object may be used for more than one render (the registry must therefore be reset per render)",
    ],
}

BASE = "mdit_to_docutils.base"
CUS = f"{BASE}:compute_unique_slug"
SIBLING = "mdit_py_plugins/anchors/index.py"


def _names(e: ast.AST) -> set[str]:
    return {n.id for n in ast.walk(e) if isinstance(n, ast.Name)}


def _assigns_to(fi: FunctionInfo, name: str) -> list[ast.stmt]:
    out = []
    for n in walk_local(fi.node):
        if isinstance(n, ast.Assign) and any(isinstance(t, ast.Name) and t.id == name for t in n.targets):
            out.append(n)
        elif isinstance(n, (ast.AnnAssign, ast.AugAssign)) and isinstance(n.target, ast.Name) and n.target.id == name:
            out.append(n)
    out.sort(key=lambda s: (s.lineno, s.col_offset))
    return out


def _resolve_alias(e: ast.expr, fi: FunctionInfo) -> str:
    """Text of ``e`` with a local name that is assigned exactly once from an attribute chain replaced by that chain."""
    if isinstance(e, ast.Name):
        scope: FunctionInfo | None = fi
        while scope is not None and not scope.is_lambda and e.id not in scope.params:
            ds = _assigns_to(scope, e.id)
            if ds:
                if len(ds) == 1 and isinstance(ds[0], ast.Assign) and dotted(ds[0].value) is not None:
                    return unparse(ds[0].value)
                break
            scope = scope.parent_func  # closure variable of an enclosing function
    return unparse(e)


def _alias_closure(names: set[str], fi: FunctionInfo) -> set[str]:
    """Names that flow by plain `a = b` copies into one of ``names``."""
    out = set(names)
    changed = True
    while changed:
        changed = False
        for n in fi.local_nodes():
            if isinstance(n, ast.Assign) and any(isinstance(t, ast.Name) and t.id in out for t in n.targets):
                for nm in _value_names(n.value):
                    if nm not in out:
                        out.add(nm)
                        changed = True
    return out


def _value_names(e: ast.expr) -> set[str]:
    """Names whose value ``e`` can evaluate to: a name, or the arms of `a or b` / `x if c else y`."""
    if isinstance(e, ast.Name):
        return {e.id}
    if isinstance(e, ast.BoolOp):
        return set().union(*(_value_names(v) for v in e.values))
    if isinstance(e, ast.IfExp):
        return _value_names(e.body) | _value_names(e.orelse)
    return set()


# ---------------------------------------------------------------------------
# extractor 1: the uniquifier loop (used on MyST and on the sibling)


def _loop_defs(w: ast.While) -> dict[str, list[ast.AST]]:
    defs: dict[str, list[ast.AST]] = {}
    for st in w.body + w.orelse:
        for n in ast.walk(st):
            tg: list[ast.expr] = []
            if isinstance(n, ast.Assign):
                tg = list(n.targets)
            elif isinstance(n, (ast.AugAssign, ast.AnnAssign)):
                tg = [n.target]
            elif isinstance(n, (ast.For, ast.comprehension)):
                tg = [n.target]
            elif isinstance(n, ast.NamedExpr):
                tg = [n.target]
            elif isinstance(n, ast.With):
                tg = [i.optional_vars for i in n.items if i.optional_vars is not None]
            for t in tg:
                for x in ast.walk(t):
                    if isinstance(x, ast.Name):
                        defs.setdefault(x.id, []).append(n)
    return defs


def _concat_parts(e: ast.expr) -> list[tuple[str, str]]:
    """[('lit', text) | ('name', id)] of a string built by an f-string or `+`."""
    if isinstance(e, ast.JoinedStr):
        out = []
        for v in e.values:
            if isinstance(v, ast.Constant) and isinstance(v.value, str):
                out.append(("lit", v.value))
            elif isinstance(v, ast.FormattedValue) and isinstance(v.value, ast.Name) and v.format_spec is None and v.conversion in (-1, 115):
                out.append(("name", v.value.id))
            else:
                raise Unsupported(f"f-string part not understood: {short(v, 40)}")
        return out
    if isinstance(e, ast.BinOp) and isinstance(e.op, ast.Add):
        return _concat_parts(e.left) + _concat_parts(e.right)
    if isinstance(e, ast.Constant) and isinstance(e.value, str):
        return [("lit", e.value)]
    if isinstance(e, ast.Name):
        return [("name", e.id)]
    if isinstance(e, ast.Call) and dotted(e.func) == "str" and len(e.args) == 1 and isinstance(e.args[0], ast.Name) and not e.keywords:
        return [("name", e.args[0].id)]
    raise Unsupported(f"candidate expression not understood: {short(e, 60)}")


def uniquifier_shape(fi: FunctionInfo) -> dict | None:
    """Shape of the `while cand in taken:` loop of ``fi`` (None when the function has no such loop)."""
    loops = [
        w
        for w in walk_local(fi.node)
        if isinstance(w, ast.While)
        and isinstance(w.test, ast.Compare)
        and len(w.test.ops) == 1
        and isinstance(w.test.ops[0], ast.In)
        and isinstance(w.test.left, ast.Name)
    ]
    # equivalent spelling: `while True: if cand not in taken: return cand / break; <rebuild>`
    forever = []
    for w in walk_local(fi.node):
        if isinstance(w, ast.While) and isinstance(w.test, ast.Constant) and w.test.value is True and w.body and isinstance(w.body[0], ast.If):
            g = w.body[0]
            t = g.test
            if (
                isinstance(t, ast.Compare)
                and len(t.ops) == 1
                and isinstance(t.ops[0], ast.NotIn)
                and isinstance(t.left, ast.Name)
                and not g.orelse
                and len(g.body) == 1
                and (isinstance(g.body[0], ast.Break) or (isinstance(g.body[0], ast.Return) and isinstance(g.body[0].value, ast.Name) and g.body[0].value.id == t.left.id))
            ):
                forever.append(w)
    if not loops and not forever:
        return None
    if len(loops) + len(forever) > 1:
        raise Unsupported(f"{fi.fq}: more than one uniquifier loop")
    w = (loops + forever)[0]
    if enclosing_loop(w, fi) is not None:
        raise Unsupported(f"{fi.fq}: uniquifier loop nested in another loop")
    test = w.test if loops else w.body[0].test
    body = w.body if loops else w.body[1:]
    cand = test.left.id
    taken = test.comparators[0]
    if not isinstance(taken, ast.Name) or taken.id not in fi.params:
        raise Unsupported(f"{fi.fq}: the collection tested by the uniquifier loop is not a parameter: {short(taken, 40)}")
    if w.orelse or not all(isinstance(st, (ast.Assign, ast.AugAssign)) for st in body):
        raise Unsupported(f"{fi.fq}: uniquifier loop body is not a straight line of assignments")
    defs = _loop_defs(w)
    if taken.id in defs or any(
        isinstance(c, ast.Call) and isinstance(c.func, ast.Attribute) and unparse(c.func.value) == taken.id for st in body for c in ast.walk(st)
    ):
        raise Unsupported(f"{fi.fq}: the taken-collection is modified inside the loop")
    cand_defs = [d for d in defs.get(cand, [])]
    if len(cand_defs) != 1 or not isinstance(cand_defs[0], ast.Assign) or len(cand_defs[0].targets) != 1:
        raise Unsupported(f"{fi.fq}: expected exactly one plain assignment to `{cand}` inside the uniquifier loop")
    cdef = cand_defs[0]
    parts = _concat_parts(cdef.value)
    names = [p for p in parts if p[0] == "name"]
    if len(parts) != 3 or [p[0] for p in parts] != ["name", "lit", "name"]:
        raise Unsupported(f"{fi.fq}: candidate is not <base><separator><counter>: {short(cdef.value, 50)}")
    base, sep, counter = parts[0][1], parts[1][1], parts[2][1]
    # counter: only `counter += <positive int>` / `counter = counter + k` inside the loop
    cdefs = defs.get(counter, [])
    step = None
    inc = None
    if len(cdefs) == 1:
        d = cdefs[0]
        if isinstance(d, ast.AugAssign) and isinstance(d.op, ast.Add) and isinstance(d.value, ast.Constant) and isinstance(d.value.value, int):
            step, inc = d.value.value, d
        elif (
            isinstance(d, ast.Assign)
            and isinstance(d.value, ast.BinOp)
            and isinstance(d.value.op, ast.Add)
            and isinstance(d.value.left, ast.Name)
            and d.value.left.id == counter
            and isinstance(d.value.right, ast.Constant)
            and isinstance(d.value.right.value, int)
        ):
            step, inc = d.value.right.value, d
    if step is None:
        raise Unsupported(f"{fi.fq}: `{counter}` is not a counter incremented once per iteration by a constant")
    pre = [s for s in _assigns_to(fi, counter) if s.lineno < w.lineno]
    if not pre or not isinstance(pre[-1], ast.Assign) or not isinstance(pre[-1].value, ast.Constant) or not isinstance(pre[-1].value.value, int):
        raise Unsupported(f"{fi.fq}: initial value of the counter `{counter}` is not a literal")
    start_node = pre[-1].value
    start = start_node.value
    first = start if body.index(inc) > body.index(cdef) else start + step
    # base invariance
    seen = set()
    b = base
    variant = None
    while True:
        if b == cand:
            variant = f"`{base}` is the candidate itself" if b == base else f"`{base}` is copied from the candidate `{cand}` inside the loop"
            break
        if b not in defs:
            break
        if b in seen:
            raise Unsupported(f"{fi.fq}: cyclic definitions of `{base}` inside the loop")
        seen.add(b)
        ds = defs[b]
        if len(ds) == 1 and isinstance(ds[0], ast.Assign) and isinstance(ds[0].value, ast.Name):
            b = ds[0].value.id
            continue
        raise Unsupported(f"{fi.fq}: base `{base}` is redefined inside the loop in a way that is not understood")
    # initial candidate is the base (uniq = slug / base = slug / same name)
    if variant is None:
        pc = [s for s in _assigns_to(fi, cand) if s.lineno < w.lineno]
        pb = [s for s in _assigns_to(fi, base) if s.lineno < w.lineno]
        linked = (
            (pc and isinstance(pc[-1], ast.Assign) and isinstance(pc[-1].value, ast.Name) and pc[-1].value.id == base)
            or (pb and isinstance(pb[-1], ast.Assign) and isinstance(pb[-1].value, ast.Name) and pb[-1].value.id == cand)
            or (not pc and cand in fi.params and pb and isinstance(pb[-1], ast.Assign) and isinstance(pb[-1].value, ast.Name) and pb[-1].value.id == cand)
        )
        if not linked:
            raise Unsupported(f"{fi.fq}: cannot see that the first candidate `{cand}` equals the base `{base}`")
    return {
        "loop": w,
        "test": test,
        "body": body,
        "cand": cand,
        "base": base,
        "counter": counter,
        "taken": taken.id,
        "cdef": cdef,
        "variant": variant,
        "sep": sep,
        "first": first,
        "step": step,
        "start_node": start_node,
        "inc": inc,
    }


def enclosing_loop(node: ast.AST, fi: FunctionInfo):
    p = parent(node)
    while p is not None and p is not fi.node:
        if isinstance(p, (ast.While, ast.For)):
            return p
        p = parent(p)
    return None


def _sibling(corpus: Corpus, rep: Report) -> Module:
    sib = corpus.sibling(SIBLING)
    rep.saw_sibling(SIBLING)
    return sib


def _sibling_uniquifier(sib: Module) -> tuple[FunctionInfo, dict]:
    found = []
    for f in sib.functions.values():
        if f.is_lambda:
            continue
        sh = uniquifier_shape(f)
        if sh is not None:
            found.append((f, sh))
    if len(found) != 1:
        raise Unsupported(f"{SIBLING}: expected one uniquifier loop, found {len(found)}")
    if found[0][1]["variant"]:
        raise Unsupported(f"{SIBLING}: the plugin's own uniquifier has a loop-variant base")
    return found[0]


def _cus_call_sites(corpus: Corpus) -> list[tuple[FunctionInfo, ast.Call]]:
    g = get_callgraph(corpus)
    cus = corpus.func(CUS)
    sites = list(g.callers().get(cus.fq, []))
    if not sites:
        raise Unsupported("compute_unique_slug has no call site in the package")
    return sites


@rule("C10.R1")
def r1_uniquifier(corpus: Corpus, rep: Report, tier: str):
    rep.rule("C10.R1", "uniquifier: returned slug re-checked against the registry; candidate = invariant base + separator + counter, equal to the plugin's; slug recorded in the registry it was checked against; registry emptied for every render")
    cus = corpus.func(CUS)
    rep.saw_function(cus.fq)
    # (d) whatever is returned was tested against the registry after its last definition
    unchecked = _recheck_clause(corpus, cus, rep)
    try:
        sh = uniquifier_shape(cus)
        shape_problem = None if sh is not None else "no `while cand in taken` loop (uniquifier moved or rewritten)"
    except Unsupported as e:
        sh, shape_problem = None, str(e)
    if sh is None:
        if not unchecked:
            raise Unsupported(f"{cus.fq}: {shape_problem}")
        # the function is already shown to hand out taken slugs; the suffix format of a shape that is not a
        # uniquifier loop is not compared
        rep.note(f"C10.R1: suffix format not compared: {shape_problem}")
    else:
        _r1_shape(corpus, rep, cus, sh)
    _r1_registry(corpus, rep, cus)
    rep.expect_min("C10.R1", 2, "re-check clause, one call site (plus base invariance and suffix format when the loop shape is recognised)")


def _recheck_clause(corpus: Corpus, cus: FunctionInfo, rep: Report) -> bool:
    """R1(d). True when a violation was reported."""
    taken = uniq_taken_param(corpus)
    cfg = get_cfg(cus)
    rets = [r for r in walk_local(cus.node) if isinstance(r, ast.Return)]
    if not rets:
        raise Unsupported(f"{cus.fq}: no return statement")
    taken_names = {taken} | {
        n.targets[0].id
        for n in walk_local(cus.node)
        if isinstance(n, ast.Assign) and len(n.targets) == 1 and isinstance(n.targets[0], ast.Name) and isinstance(n.value, ast.Name) and n.value.id == taken
    }

    def free_edges(var: str) -> set:
        out = set()
        for st in walk_local(cus.node):
            if isinstance(st, (ast.If, ast.While)):
                for pol in (True, False):
                    for t, p in facts(st.test, pol):
                        if (
                            isinstance(t, ast.Compare)
                            and len(t.ops) == 1
                            and isinstance(t.left, ast.Name)
                            and t.left.id == var
                            and isinstance(t.comparators[0], ast.Name)
                            and t.comparators[0].id in taken_names
                            and ((isinstance(t.ops[0], ast.In) and not p) or (isinstance(t.ops[0], ast.NotIn) and p))
                        ):
                            out.add(("T" if pol else "F", st))
        return out

    bad = False
    # every value a return statement can yield: conditional expressions are split into their arms
    yielded: list[tuple[ast.Return, ast.expr]] = []
    for r in rets:
        work = [r.value]
        while work:
            e = work.pop()
            if isinstance(e, ast.IfExp):
                work += [e.body, e.orelse]
            elif isinstance(e, ast.BoolOp):
                work += list(e.values)
            elif e is not None:
                yielded.append((r, e))
    k0 = f"{cus.fq}|returned slug was tested against the registry"
    for r, val in yielded:
        k = k0 if len(yielded) == 1 else f"{k0}|{short(val, 30)}"
        site = cus.module.site(r)
        if isinstance(val, (ast.JoinedStr, ast.BinOp)) or (isinstance(val, ast.Call) and isinstance(val.func, ast.Attribute) and val.func.attr in ("format", "join")):
            # a string assembled in the return statement itself has no name under which it could have been tested
            bad = True
            rep.violation(
                "C10.R1",
                k,
                site,
                f"`{short(val, 50)}` is built and returned at once, without ever being tested against `{taken}`: a heading can receive an anchor that another heading "
                "(for example one literally titled like the suffixed form) already owns",
                [f"{site} return {short(r.value, 60)}"],
            )
            continue
        if not isinstance(val, ast.Name):
            raise Unsupported(f"{site}: the uniquifier returns an expression, not a tested name: {short(val, 40)}")
        var = val.id
        sink: ast.AST = r
        for _ in range(4):  # `result = uniq; return result`: judge the copied name at the copy
            ds = _assigns_to(cus, var)
            if var not in cus.params and len(ds) == 1 and isinstance(ds[0], ast.Assign) and isinstance(ds[0].value, ast.Name):
                var, sink = ds[0].value.id, ds[0]
            else:
                break
        ok_edges = free_edges(var)
        defs: list = list(_assigns_to(cus, var))
        if var in cus.params:
            defs.append("ENTRY")
        if not defs:
            raise Unsupported(f"{site}: no definition of `{var}` found")
        leak = None
        for d in defs:
            # a path through another definition is judged from that definition
            if cfg.paths_avoiding(d, sink, lambda n, d=d: n in ok_edges or (n in defs and n is not d)):
                leak = d
                break
        if leak is None:
            rep.ok("C10.R1", k, site, f"every path from a definition of `{var}` to the return passes a `{var} not in {taken}` edge")
        else:
            bad = True
            where = "the function entry" if leak == "ENTRY" else f"`{short(leak, 50)}`"
            rep.violation(
                "C10.R1",
                k,
                site,
                f"`{var}` can be returned without having been tested against `{taken}` after {where}: "
                + ("it is never tested at all" if not ok_edges else "the test does not cover that definition")
                + " - two headings can receive the same anchor",
                [f"{cus.module.site(leak) if leak != 'ENTRY' else cus.site()} definition", f"{site} return {var}"],
            )
    return bad


def _r1_shape(corpus: Corpus, rep: Report, cus: FunctionInfo, sh: dict) -> None:
    sib = _sibling(corpus, rep)
    sfi, ssh = _sibling_uniquifier(sib)
    site = cus.module.site(sh["cdef"])
    # (a) base invariance
    k = f"{cus.fq}|uniquifier base|{short(sh['cdef'], 60)}"
    if sh["variant"]:
        rep.violation(
            "C10.R1",
            k,
            site,
            f"the candidate is rebuilt from a loop-variant base ({sh['variant']}): suffixes accumulate - the third equal title gets "
            f"`x{sh['sep']}{sh['first']}{sh['sep']}{sh['first'] + sh['step']}` where the rule (and {SIBLING}:{sfi.qualname}) gives `x{ssh['sep']}{ssh['first'] + ssh['step']}`",
            [f"{site} {short(sh['cdef'], 60)}", f"loop: while {short(sh['test'], 40)}"],
        )
    else:
        rep.ok("C10.R1", k, site, f"base `{sh['base']}` has no definition inside the loop")
    # (b) suffix format agrees with the plugin
    k = f"{cus.fq}|uniquifier suffix format"
    mine, theirs = (sh["sep"], sh["first"], sh["step"]), (ssh["sep"], ssh["first"], ssh["step"])
    if mine == theirs:
        rep.ok("C10.R1", k, site, f"(separator, first suffix, step) = {mine} as in {sfi.qualname}")
    else:
        rep.violation("C10.R1", k, site, f"(separator, first suffix, step) = {mine} but {SIBLING}:{sfi.qualname} (the myst-anchors CLI) uses {theirs}")


def _registry_resets(corpus: Corpus, fi: FunctionInfo, reg: ast.expr) -> tuple[list, list]:
    """Plain assignments `self.<registry> = <empty dict>` in the class of ``fi``: (in a method every render runs, elsewhere)."""
    if not (isinstance(reg, ast.Attribute) and isinstance(reg.value, ast.Name) and reg.value.id == "self" and fi.cls is not None):
        raise Unsupported(f"{fi.fq}: slug registry `{unparse(reg)}` is not an attribute of the renderer")
    g = get_callgraph(corpus)
    render = corpus.lookup_method(fi.cls, "render")
    if render is None:
        raise Unsupported(f"{fi.cls.fq}: no render method")
    reach = set(g.reachable([render]))
    per_render, elsewhere = [], []
    for c in corpus.mro(fi.cls):
        for m in c.methods.values():
            for n in walk_local(m.node):
                tg = n.targets if isinstance(n, ast.Assign) else ([n.target] if isinstance(n, ast.AnnAssign) and n.value is not None else [])
                if not any(isinstance(t, ast.Attribute) and unparse(t) == unparse(reg) for t in tg):
                    continue
                v = n.value
                empty = (isinstance(v, ast.Dict) and not v.keys) or (isinstance(v, ast.Call) and dotted(v.func) in ("dict", "OrderedDict") and not v.args and not v.keywords)
                if not empty:
                    continue  # judged by the "registry only grows" clause
                cfg = get_cfg(m)
                every_path = cfg.postdominates(cfg.stmt_of(n), "ENTRY")
                if m.fq in reach and m.name != "__init__" and every_path:
                    per_render.append((m, n))
                else:
                    elsewhere.append((m, n, "only on some paths" if (m.fq in reach and m.name != "__init__") else "not run by render()"))
    return per_render, elsewhere


def _registry_rebinds(corpus: Corpus, fi: FunctionInfo, reg: ast.expr) -> list[tuple[FunctionInfo, ast.stmt, str]]:
    """Assignments to the registry attribute in code that runs while the tokens of a document are rendered
    (token handlers, nested renders and everything they reach, nested functions included): (function, stmt, verdict)."""
    g = get_callgraph(corpus)
    entries = []
    for c in corpus.mro(fi.cls):
        for m in c.methods.values():
            if (m.name.startswith("render_") or m.name == "nested_render_text") and m not in entries:
                entries.append(m)
    for sc in corpus.subclasses(fi.cls):
        for m in sc.methods.values():
            if m.name.startswith("render_") and m not in entries:
                entries.append(m)
    mid = g.reachable(entries)
    reg_text = unparse(reg)
    out = []
    for fq in sorted(mid):
        try:
            m = corpus.func(fq.replace("myst_parser.", "", 1))
        except Exception:
            continue
        if m.is_lambda:
            continue
        for n in walk_local(m.node):
            tg = n.targets if isinstance(n, ast.Assign) else ([n.target] if isinstance(n, ast.AnnAssign) and n.value is not None else [])
            if not any(isinstance(t, ast.Attribute) and unparse(t) == reg_text for t in tg):
                continue
            v = n.value
            empty = (isinstance(v, ast.Dict) and not v.keys) or (isinstance(v, ast.Call) and dotted(v.func) in ("dict", "OrderedDict") and not v.args and not v.keywords)
            if empty:
                out.append((m, n, "reset"))
                continue
            if reg_text in unparse(v):
                out.append((m, n, "undecided"))  # rebuilt from itself (copy / functional update)
                continue
            snap = False
            if isinstance(v, ast.Name):
                scope: FunctionInfo | None = m
                while scope is not None and not snap:
                    for d in _assigns_to(scope, v.id):
                        if getattr(d, "value", None) is not None and reg_text in unparse(d.value):
                            snap = True
                    scope = scope.parent_func
            out.append((m, n, "rollback" if snap else "undecided"))
    return out


def _r1_registry_reset(corpus: Corpus, rep: Report, fi: FunctionInfo, reg: ast.expr) -> None:
    # (e) the registry starts empty for every document
    reg_node = reg
    if isinstance(reg, ast.Name):
        ds = _assigns_to(fi, reg.id)
        if len(ds) == 1 and isinstance(ds[0], ast.Assign):
            reg_node = ds[0].value
    per_render, elsewhere = _registry_resets(corpus, fi, reg_node)
    ke = f"{fi.cls.fq}|slug registry re-created for every render"
    if per_render:
        rep.ok("C10.R1", ke, per_render[0][0].module.site(per_render[0][1]), f"`{unparse(reg_node)} = {{}}` in {per_render[0][0].qualname}, which render() always runs")
    elif elsewhere:
        m, n, why = elsewhere[0]
        rep.violation(
            "C10.R1",
            ke,
            m.module.site(n),
            f"`{unparse(reg_node)}` is emptied only in {m.qualname} ({why}): a second document rendered with the same parser object still sees the first "
            "document's slugs, so its first `# a` becomes `a-1` (not unique-per-document numbering, and not what myst-anchors prints)",
        )
    else:
        raise Unsupported(f"{fi.cls.fq}: no assignment of an empty dict to `{unparse(reg_node)}` found")
    # (f) while the tokens of a document are rendered the registry only grows
    kf = f"{fi.cls.fq}|slug registry only grows while a document is rendered"
    rebinds = _registry_rebinds(corpus, fi, reg_node)
    bad = [x for x in rebinds if x[2] in ("reset", "rollback")]
    if bad:
        m, n, why = bad[0]
        rep.violation(
            "C10.R1",
            kf,
            m.module.site(n),
            f"`{short(n, 60)}` in {m.qualname} "
            + ("puts back a snapshot taken earlier" if why == "rollback" else "empties the registry")
            + " in the middle of a document (the function is reached from the token handlers / nested renders): slugs recorded in between are forgotten, so a later "
            "heading with the same title receives the same anchor again and '#slug' of the forgotten heading no longer resolves to it",
        )
    elif rebinds:
        m, n, _why = rebinds[0]
        raise Unsupported(f"{m.module.site(n)}: the slug registry is re-bound while a document is rendered (`{short(n, 50)}`); effect not decided")
    else:
        rep.ok("C10.R1", kf, fi.site(), "no assignment to the registry attribute in code reached from the token handlers")


def _r1_registry(corpus: Corpus, rep: Report, cus: FunctionInfo) -> None:
    # (c) registry identity at every call site
    taken = uniq_taken_param(corpus)
    pidx = cus.params.index(taken)
    for fi, call in _cus_call_sites(corpus):
        rep.saw_function(fi.fq)
        rep.saw_call(fi.module.site(call))
        reg = arg_or_kw(call, pidx, taken)
        csite = fi.module.site(call)
        k = f"{fi.fq}|registry passed to compute_unique_slug"
        if reg is None or dotted(reg) is None:
            raise Unsupported(f"{csite}: registry argument of compute_unique_slug not understood")
        st = parent(call)
        if not (isinstance(st, ast.Assign) and len(st.targets) == 1 and isinstance(st.targets[0], ast.Name)):
            raise Unsupported(f"{csite}: result of compute_unique_slug is not bound to a name")
        res = st.targets[0].id
        stores = [
            n
            for n in walk_local(fi.node)
            if isinstance(n, ast.Assign) and len(n.targets) == 1 and isinstance(n.targets[0], ast.Subscript) and isinstance(n.targets[0].slice, ast.Name) and n.targets[0].slice.id == res
        ]
        reg_text = _resolve_alias(reg, fi)
        same = [n for n in stores if _resolve_alias(n.targets[0].value, fi) == reg_text]
        if same:
            rep.ok("C10.R1", k, csite, f"`{unparse(reg)}` is tested and receives `[{res}] = ...`")
            # '' is a legal slug (emoji-only / punctuation-only title): it is recorded like any other
            ke_ = f"{fi.fq}|an empty slug is recorded like any other"
            cfg_ = get_cfg(fi)
            falsy = None
            for n in same:
                for t, pol in cfg_.guards(cfg_.stmt_of(n)):
                    if pol and isinstance(t, ast.Name) and t.id == res:
                        falsy = (n, t)
                    if isinstance(t, ast.Compare) and len(t.ops) == 1 and res in _names(t) and any(isinstance(x, ast.Constant) and x.value in ("", 0) for x in ast.walk(t)):
                        falsy = (n, t)
                    if isinstance(t, ast.Call) and dotted(t.func) in ("len", "bool") and res in _names(t) and pol:
                        falsy = (n, t)
            if falsy is not None:
                rep.violation(
                    "C10.R1",
                    ke_,
                    fi.module.site(falsy[1]),
                    f"the slug is only recorded when `{short(falsy[1], 40)}` holds: a successfully computed empty slug (title of emoji or punctuation only) gets no anchor and "
                    "is not entered in the registry, although myst-anchors prints it (and numbers the next such heading `-1`)",
                )
            else:
                rep.ok("C10.R1", ke_, fi.module.site(same[0]))
        elif stores:
            rep.violation(
                "C10.R1",
                k,
                csite,
                f"uniqueness is tested against `{unparse(reg)}` but the slug is recorded in `{unparse(stores[0].targets[0].value)}`: a later equal title is not seen as taken",
            )
        else:
            # the slug may be recorded by a helper or under another key name: not decided here
            handed_on = [
                c
                for c in walk_local(fi.node)
                if isinstance(c, ast.Call) and c is not call and any(isinstance(a, ast.Name) and a.id == res for a in list(c.args) + [kw.value for kw in c.keywords])
            ]
            other_store = [
                n
                for n in walk_local(fi.node)
                if isinstance(n, ast.Assign) and any(isinstance(t, ast.Subscript) and _resolve_alias(t.value, fi) == reg_text for t in n.targets)
            ]
            if handed_on or other_store:
                raise Unsupported(f"{csite}: how `{res}` is recorded in `{unparse(reg)}` is not understood")
            rep.violation("C10.R1", k, csite, f"the computed slug `{res}` is never recorded in `{unparse(reg)}`: a later equal title gets the same anchor")
        n_viol = len([v for v in rep.violations() if v.rule == "C10.R1" and v.key == k])
        try:
            _r1_registry_reset(corpus, rep, fi, reg)
        except Unsupported as e:
            if n_viol:
                rep.note(f"C10.R1: registry reset not judged: {e}")
            else:
                raise


# ---------------------------------------------------------------------------
# extractor 2: slug pipeline (str methods + regex substitution) of a one-argument function

_STR_METHODS = {
    "strip", "lstrip", "rstrip", "lower", "upper", "casefold", "title", "capitalize", "swapcase",
    "replace", "translate", "removeprefix", "removesuffix", "expandtabs",
}  # fmt: skip
_IDEMPOTENT = {"strip", "lstrip", "rstrip", "lower", "upper", "casefold"}


def _flags_value(e: ast.expr | None, m: Module) -> int:
    if e is None:
        return 0
    if isinstance(e, ast.Constant) and isinstance(e.value, int):
        return e.value
    if isinstance(e, ast.BinOp) and isinstance(e.op, ast.BitOr):
        return _flags_value(e.left, m) | _flags_value(e.right, m)
    d = dotted(e)
    if d and m.resolve(d).startswith("re."):
        v = getattr(re, m.resolve(d)[3:], None)
        if isinstance(v, int):
            return int(v)
    raise Unsupported(f"regex flags not understood: {short(e, 40)}")


def _regex_op(pat, flags: int, repl, node: ast.AST) -> tuple:
    import re._parser as rp  # stdlib regex parser: builds the tree, runs nothing

    if not isinstance(pat, str) or not isinstance(repl, str):
        raise Unsupported("regex pattern/replacement is not a str literal")
    try:
        p = rp.parse(pat, flags)
    except re.error as e:
        raise Unsupported(f"regex does not parse: {e}") from None
    return ("re.sub", repr(_norm_tree(p)), int(p.state.flags), repl, pat, node)


def _norm_tree(p):
    """Parsed regex as nested tuples; members of a character class in canonical order."""
    import re._parser as rp

    if isinstance(p, rp.SubPattern):
        return tuple(_norm_tree(x) for x in p.data)
    if isinstance(p, int) and hasattr(p, "name"):
        return p.name
    if isinstance(p, tuple) and len(p) == 2 and getattr(p[0], "name", None) == "IN":
        items = [_norm_tree(x) for x in p[1]]
        neg = [i for i in items if i[0] == "NEGATE"]
        rest = sorted((i for i in items if i[0] != "NEGATE"), key=repr)
        return ("IN", tuple(neg + rest))
    if isinstance(p, (tuple, list)):
        return tuple(_norm_tree(x) for x in p)
    return p


def _callable_keep(fi: FunctionInfo, fn: ast.FunctionDef) -> str:
    """'keep:<sorted facts>' for a replacement callable of the form `m -> m.group() if <kept> else ""`, where <kept> is an
    `or` of Unicode-category tests (`unicodedata.category(c).startswith("M")`, `... in ("Mn", ...)`) and `c in "<chars>"`."""
    if len(fn.args.args) != 1:
        raise Unsupported(f"{fi.fq}: replacement callable `{fn.name}` not understood")
    marg = fn.args.args[0].arg
    env: dict[str, ast.expr] = {}
    ret = None
    for st in fn.body:
        if isinstance(st, ast.Expr) and isinstance(st.value, ast.Constant):
            continue
        if isinstance(st, ast.Assign) and len(st.targets) == 1 and isinstance(st.targets[0], ast.Name):
            env[st.targets[0].id] = st.value
            continue
        if isinstance(st, ast.Return) and st.value is not None:
            ret = st.value
            break
        raise Unsupported(f"{fi.fq}: statement in the replacement callable `{fn.name}` not understood: {short(st, 40)}")

    def res(e: ast.expr, d: int = 0) -> ast.expr:
        while isinstance(e, ast.Name) and e.id in env and d < 6:
            e, d = env[e.id], d + 1
        return e

    def is_char(e: ast.expr) -> bool:
        e = res(e)
        if isinstance(e, ast.Call) and isinstance(e.func, ast.Attribute) and e.func.attr == "group" and isinstance(e.func.value, ast.Name) and e.func.value.id == marg:
            return not e.args or (len(e.args) == 1 and isinstance(e.args[0], ast.Constant) and e.args[0].value == 0)
        return isinstance(e, ast.Subscript) and isinstance(e.value, ast.Name) and e.value.id == marg and isinstance(e.slice, ast.Constant) and e.slice.value == 0

    ret = res(ret) if ret is not None else None
    if not (isinstance(ret, ast.IfExp) and is_char(ret.body) and isinstance(ret.orelse, ast.Constant) and ret.orelse.value == ""):
        raise Unsupported(f"{fi.fq}: replacement callable `{fn.name}` is not `<match> if <kept> else ''`")
    facts_: set[str] = set()

    def kept(t: ast.expr) -> None:
        t = res(t)
        if isinstance(t, ast.BoolOp) and isinstance(t.op, ast.Or):
            for v in t.values:
                kept(v)
            return
        if isinstance(t, ast.Call) and isinstance(t.func, ast.Attribute) and t.func.attr == "startswith" and len(t.args) == 1 and isinstance(t.args[0], ast.Constant):
            c = t.func.value
            if isinstance(c, ast.Call) and fi.module.resolve(dotted(c.func) or "") == "unicodedata.category" and len(c.args) == 1 and is_char(c.args[0]):
                facts_.add(f"cat:{t.args[0].value}*")
                return
        if isinstance(t, ast.Compare) and len(t.ops) == 1 and isinstance(t.ops[0], ast.In):
            rhs = t.comparators[0]
            if is_char(t.left) and isinstance(rhs, ast.Constant) and isinstance(rhs.value, str):
                for ch in rhs.value:
                    facts_.add(f"U+{ord(ch):04X}")
                return
            if is_char(t.left) and isinstance(rhs, (ast.Tuple, ast.List, ast.Set)) and all(isinstance(x, ast.Constant) and isinstance(x.value, str) and len(x.value) == 1 for x in rhs.elts):
                for x in rhs.elts:
                    facts_.add(f"U+{ord(x.value):04X}")
                return
            lc = t.left
            if isinstance(lc, ast.Call) and fi.module.resolve(dotted(lc.func) or "") == "unicodedata.category" and is_char(lc.args[0]) and isinstance(rhs, (ast.Tuple, ast.List, ast.Set)):
                for x in rhs.elts:
                    if not (isinstance(x, ast.Constant) and isinstance(x.value, str)):
                        raise Unsupported(f"{fi.fq}: category list in `{fn.name}` not literal")
                    facts_.add(f"cat:{x.value}")
                return
        raise Unsupported(f"{fi.fq}: keep-condition of the replacement callable not understood: {short(t, 50)}")

    kept(ret.test)
    return "keep:" + ",".join(sorted(facts_))


def _keeps_word_chars(repl: str) -> list[str]:
    """What of Ruby's \\p{Word} beyond Python's \\w a replacement fails to keep: combining marks (M*) and ZWNJ/ZWJ."""
    facts_ = set(repl[5:].split(",")) if repl.startswith("keep:") else set()
    missing = []
    if not ("cat:M*" in facts_ or {"cat:Mn", "cat:Mc", "cat:Me"} <= facts_):
        missing.append("combining marks (categories Mn/Mc/Me)")
    for cp, nm in (("U+200C", "ZERO WIDTH NON-JOINER"), ("U+200D", "ZERO WIDTH JOINER")):
        if cp not in facts_:
            missing.append(nm)
    return missing


def slug_pipeline(fi: FunctionInfo) -> list[tuple]:
    m = fi.module
    if fi.is_lambda or len(fi.params) != 1:
        raise Unsupported(f"{fi.fq}: not a one-argument function")
    env: dict[str, list[tuple]] = {fi.params[0]: []}

    def const(e: ast.expr):
        try:
            return m.eval_const(e)
        except Unsupported:
            raise Unsupported(f"{fi.fq}: argument is not a literal: {short(e, 40)}") from None

    nested = {st.name: st for st in fi.node.body if isinstance(st, ast.FunctionDef)}

    def repl_of(e: ast.expr) -> str:
        """Replacement of a regex substitution: a literal, or 'keep:...' for a callable that keeps some matches."""
        if isinstance(e, ast.Name) and e.id in nested:
            return _callable_keep(fi, nested[e.id])
        if isinstance(e, ast.Lambda):
            raise Unsupported(f"{fi.fq}: lambda replacement not understood")
        return const(e)

    def sym(e: ast.expr) -> list[tuple]:
        if isinstance(e, ast.Name):
            if e.id in env:
                return list(env[e.id])
            raise Unsupported(f"{fi.fq}: name `{e.id}` is not derived from the title")
        if isinstance(e, ast.Call):
            f = e.func
            d = dotted(f)
            full = m.resolve(d) if d else ""
            if full == "re.sub":
                if len(e.args) < 3 or any(k.arg != "flags" for k in e.keywords) or len(e.args) > 3:
                    raise Unsupported(f"{fi.fq}: re.sub call form not understood")
                return sym(e.args[2]) + [_regex_op(const(e.args[0]), _flags_value(kwarg(e, "flags"), m), repl_of(e.args[1]), e.args[0])]
            if isinstance(f, ast.Attribute):
                if f.attr == "sub" and isinstance(f.value, ast.Name) and f.value.id not in env and f.value.id in m.const_nodes:
                    cn = m.const_nodes[f.value.id]
                    if not (isinstance(cn, ast.Call) and m.resolve(dotted(cn.func) or "") == "re.compile" and cn.args):
                        raise Unsupported(f"{fi.fq}: `{f.value.id}` is not a module-level re.compile(...)")
                    if len(e.args) != 2 or e.keywords:
                        raise Unsupported(f"{fi.fq}: pattern.sub call form not understood")
                    fl = cn.args[1] if len(cn.args) > 1 else kwarg(cn, "flags")
                    return sym(e.args[1]) + [_regex_op(const(cn.args[0]), _flags_value(fl, m), repl_of(e.args[0]), cn.args[0])]
                if f.attr in _STR_METHODS and not e.keywords:
                    return sym(f.value) + [(f.attr, tuple(const(a) for a in e.args), e)]
            raise Unsupported(f"{fi.fq}: call outside the str/regex pipeline subset: {short(e, 50)}")
        raise Unsupported(f"{fi.fq}: expression outside the str/regex pipeline subset: {short(e, 50)}")

    for st in fi.node.body:
        if isinstance(st, ast.Expr) and isinstance(st.value, ast.Constant):
            continue
        if isinstance(st, ast.FunctionDef):
            continue  # local helper (e.g. the replacement callable of the regex substitution)
        if isinstance(st, ast.Assign) and len(st.targets) == 1 and isinstance(st.targets[0], ast.Name):
            env[st.targets[0].id] = sym(st.value)
            continue
        if isinstance(st, ast.AnnAssign) and isinstance(st.target, ast.Name) and st.value is not None:
            env[st.target.id] = sym(st.value)
            continue
        if isinstance(st, ast.Return) and st.value is not None:
            return sym(st.value)
        raise Unsupported(f"{fi.fq}: statement outside the straight-line subset: {short(st, 50)}")
    raise Unsupported(f"{fi.fq}: no return value")


def _op_text(op: tuple) -> str:
    if op[0] == "re.sub":
        return f"re.sub({op[4]!r}, {op[3]!r})"
    return f"{op[0]}({', '.join(repr(a) for a in op[1])})"


def _op_val(op: tuple) -> tuple:
    return op[:4] if op[0] == "re.sub" else op[:2]


def _normal_order(ops: list[tuple]) -> list[tuple]:
    """Value list with adjacent idempotent duplicates collapsed and adjacent strip/lower in canonical order."""
    vals = [_op_val(o) for o in ops]
    out: list[tuple] = []
    for v in vals:
        if out and out[-1] == v and v[0] in _IDEMPOTENT:
            continue
        out.append(v)
    changed = True
    while changed:
        changed = False
        for i in range(len(out) - 1):
            a, b = out[i], out[i + 1]
            if {a[0], b[0]} == {"strip", "lower"} and not a[1] and not b[1] and a[0] > b[0]:
                out[i], out[i + 1] = b, a
                changed = True
    return out


def _normal_order_ops(ops: list[tuple]) -> list[tuple]:
    """Operations in canonical order (see _normal_order), as (name, args...) value tuples wrapped like ops."""
    return [v + (None,) * 3 for v in _normal_order(ops)]


def _default_slug_func(corpus: Corpus) -> tuple[FunctionInfo, dict]:
    """The function compute_unique_slug uses when no custom one is configured, and the selection facts."""
    cus = corpus.func(CUS)
    sel = slug_func_selection(corpus)
    d = sel["default"]
    fi = corpus.find_function(cus.module.resolve(d))
    if fi is None:
        raise Unsupported(f"default slug function `{d}` is not a package function")
    return fi, sel


def _sibling_default_slug_func(sib: Module) -> FunctionInfo:
    # `slug_func or slugify` in anchors_plugin
    for f in sib.functions.values():
        if f.is_lambda or "slug_func" not in f.params:
            continue
        for n in walk_local(f.node):
            if isinstance(n, ast.BoolOp) and isinstance(n.op, ast.Or) and len(n.values) == 2 and isinstance(n.values[0], ast.Name) and n.values[0].id == "slug_func" and isinstance(n.values[1], ast.Name):
                name = n.values[1].id
                if name in sib.functions:
                    return sib.functions[name]
    raise Unsupported(f"{SIBLING}: default slug function (`slug_func or <default>`) not found")


# ---------------------------------------------------------------------------
# extractor 3: title construction


def _types_of(c: ast.Compare, pol: bool, var: str, fi: FunctionInfo):
    """(frozenset of token types, filter attribute, literal node) when (c, pol) means `var.<attr> in {literals}`."""
    if not (isinstance(c, ast.Compare) and len(c.ops) == 1 and isinstance(c.left, ast.Attribute) and isinstance(c.left.value, ast.Name) and c.left.value.id == var):
        return None
    rhs = c.comparators[0]
    lit = rhs
    if isinstance(rhs, ast.Name):  # hoisted constant (module level or local, assigned once)
        ds = _assigns_to(fi, rhs.id)
        if len(ds) == 1 and isinstance(ds[0], ast.Assign):
            lit = ds[0].value
        elif not ds and rhs.id in fi.module.const_nodes:
            lit = fi.module.const_nodes[rhs.id]
    op = c.ops[0]
    if isinstance(lit, ast.Call) and dotted(lit.func) in ("frozenset", "set", "tuple", "list") and len(lit.args) == 1:
        lit = lit.args[0]
    if isinstance(lit, (ast.List, ast.Tuple, ast.Set)) and all(isinstance(e, ast.Constant) and isinstance(e.value, str) for e in lit.elts):
        if (isinstance(op, ast.In) and pol) or (isinstance(op, ast.NotIn) and not pol):
            return frozenset(e.value for e in lit.elts), c.left.attr, lit
    if isinstance(lit, ast.Constant) and isinstance(lit.value, str):
        if (isinstance(op, ast.Eq) and pol) or (isinstance(op, ast.NotEq) and not pol):
            return frozenset([lit.value]), c.left.attr, lit
    return None


def _gathers(fi: FunctionInfo) -> list[dict]:
    """Every `SEP.join(<x.attr for x in ITER if tests>)`, written as a comprehension or as an explicit loop."""
    out = []
    for n in walk_local(fi.node):
        # comprehension form
        if (
            isinstance(n, ast.Call)
            and isinstance(n.func, ast.Attribute)
            and n.func.attr == "join"
            and isinstance(n.func.value, ast.Constant)
            and isinstance(n.func.value.value, str)
            and len(n.args) == 1
            and isinstance(n.args[0], (ast.GeneratorExp, ast.ListComp))
        ):
            comp = n.args[0]
            if len(comp.generators) == 1 and not comp.generators[0].is_async and isinstance(comp.generators[0].target, ast.Name):
                g = comp.generators[0]
                tj = parent(n)
                tname = tj.targets[0].id if isinstance(tj, ast.Assign) and tj.value is n and len(tj.targets) == 1 and isinstance(tj.targets[0], ast.Name) else None
                out.append({"sep": n.func.value.value, "var": g.target.id, "elt": comp.elt, "tests": [f_ for i in g.ifs for f_ in facts(i, True)], "iter": g.iter, "node": n, "title_name": tname, "title_expr": n})
        # loop form: for x in ITER: [if ...: continue] / [if ...:] acc.append(x.attr) | acc += x.attr
        if isinstance(n, ast.For) and isinstance(n.target, ast.Name) and not n.orelse:
            accs: list[tuple[str, str, ast.expr, list]] = []
            clean = True

            def scan(stmts, held):
                nonlocal clean
                held = list(held)
                for st in stmts:
                    if isinstance(st, ast.If) and not st.orelse and len(st.body) == 1 and isinstance(st.body[0], ast.Continue):
                        held += facts(st.test, False)
                    elif isinstance(st, ast.If) and not st.orelse:
                        scan(st.body, held + facts(st.test, True))
                    elif isinstance(st, ast.Expr) and isinstance(st.value, ast.Call) and isinstance(st.value.func, ast.Attribute) and st.value.func.attr == "append" and isinstance(st.value.func.value, ast.Name) and len(st.value.args) == 1:
                        accs.append(("append", st.value.func.value.id, st.value.args[0], held))
                    elif isinstance(st, ast.AugAssign) and isinstance(st.op, ast.Add) and isinstance(st.target, ast.Name):
                        accs.append(("concat", st.target.id, st.value, held))
                    else:
                        clean = False

            scan(n.body, [])
            if not clean or len(accs) != 1:
                continue
            kind, acc, elt, held = accs[0]
            init = [d for d in _assigns_to(fi, acc) if d.lineno < n.lineno]
            if kind == "append":
                if not (len(_assigns_to(fi, acc)) == 1 and init and isinstance(init[0], ast.Assign) and isinstance(init[0].value, ast.List) and not init[0].value.elts):
                    continue
                joins = [
                    c
                    for c in walk_local(fi.node)
                    if isinstance(c, ast.Call) and isinstance(c.func, ast.Attribute) and c.func.attr == "join" and isinstance(c.func.value, ast.Constant) and isinstance(c.func.value.value, str) and len(c.args) == 1 and isinstance(c.args[0], ast.Name) and c.args[0].id == acc and c.lineno > n.lineno
                ]
                others = [x for x in walk_local(fi.node) if isinstance(x, ast.Name) and x.id == acc and isinstance(x.ctx, ast.Load)]
                if len(joins) != 1 or len(others) != 2:  # the append receiver and the join argument
                    continue
                j = joins[0]
                tj = parent(j)
                tname = tj.targets[0].id if isinstance(tj, ast.Assign) and tj.value is j and len(tj.targets) == 1 and isinstance(tj.targets[0], ast.Name) else None
                out.append({"sep": j.func.value.value, "var": n.target.id, "elt": elt, "tests": held, "iter": n.iter, "node": n, "title_name": tname, "title_expr": j})
            else:
                if not (init and isinstance(init[-1], ast.Assign) and isinstance(init[-1].value, ast.Constant) and init[-1].value.value == "" and len(_assigns_to(fi, acc)) == 2):
                    continue
                out.append({"sep": "", "var": n.target.id, "elt": elt, "tests": held, "iter": n.iter, "node": n, "title_name": acc, "title_expr": None})
    return out


def _token_offset(fi: FunctionInfo, tok: str) -> int | None:
    """Distance of the token named ``tok`` from the heading's opening token."""
    tdefs = _assigns_to(fi, tok)
    if len(tdefs) != 1 or not isinstance(tdefs[0], ast.Assign) or not isinstance(tdefs[0].value, ast.Subscript):
        return None
    sub = tdefs[0].value
    sl = sub.slice
    if isinstance(sl, ast.Constant) and isinstance(sl.value, int):
        src = sub.value
        if isinstance(src, ast.Name):
            sd = _assigns_to(fi, src.id)
            src = sd[0].value if len(sd) == 1 and isinstance(sd[0], ast.Assign) else None
        if isinstance(src, ast.Call) and isinstance(src.func, ast.Attribute) and src.func.attr == "to_tokens" and not src.args:
            return sl.value  # index 0 of to_tokens() is the heading's own opening token
    elif isinstance(sl, ast.BinOp) and isinstance(sl.op, ast.Add) and isinstance(sl.left, ast.Name) and isinstance(sl.right, ast.Constant) and isinstance(sl.right.value, int):
        loop = enclosing_loop(tdefs[0], fi)
        if isinstance(loop, ast.For) and sl.left.id in _names(loop.target) and isinstance(loop.iter, ast.Call) and dotted(loop.iter.func) == "enumerate":
            return sl.right.value
    return None


def title_fingerprint(fi: FunctionInfo, corpus: Corpus | None = None) -> dict | None:
    """How the heading title is assembled in ``fi`` (or in a package helper it calls, when ``corpus`` is given)."""
    owner = fi
    call_in_fi = None
    cands = []
    for g in _gathers(fi):
        ts = [x for x in (_types_of(t, pol, g["var"], fi) for t, pol in g["tests"]) if x is not None]
        if ts:
            cands.append((g, ts))
    if not cands and corpus is not None:
        cg = get_callgraph(corpus)
        for call, targets in cg.callees(fi):
            for h in cg.flat_targets(targets):
                if h.is_lambda or h.fq == fi.fq:
                    continue
                for g in _gathers(h):
                    ts = [x for x in (_types_of(t, pol, g["var"], h) for t, pol in g["tests"]) if x is not None]
                    if ts:
                        cands.append((g, ts))
                        owner, call_in_fi = h, call
    if not cands:
        return None
    if len(cands) > 1:
        raise Unsupported(f"{fi.fq}: more than one title join")
    g, ts = cands[0]
    var = g["var"]
    if len(ts) != 1 or len(g["tests"]) != 1:
        raise Unsupported(f"{owner.fq}: title filter is not a single `child.type in [literals]` test")
    types, fattr, lit = ts[0]
    elt = g["elt"]
    if not (isinstance(elt, ast.Attribute) and isinstance(elt.value, ast.Name) and elt.value.id == var):
        raise Unsupported(f"{owner.fq}: title element is not an attribute of the child token")
    it = g["iter"]
    if isinstance(it, ast.Name):  # children = tok.children or []
        ds = _assigns_to(owner, it.id)
        if len(ds) == 1 and isinstance(ds[0], ast.Assign):
            it = ds[0].value
    if isinstance(it, ast.BoolOp) and isinstance(it.op, ast.Or) and len(it.values) == 2 and isinstance(it.values[1], (ast.List, ast.Tuple)) and not it.values[1].elts:
        it = it.values[0]
    if not (isinstance(it, ast.Attribute) and isinstance(it.value, ast.Name)):
        raise Unsupported(f"{owner.fq}: title iterates over something other than <token>.<attr>")
    coll_attr, tok = it.attr, it.value.id
    title_name, title_expr = g["title_name"], g["title_expr"]
    if owner is fi:
        offset = _token_offset(fi, tok)
    else:
        # the helper receives the inline token as a parameter and returns the title
        rets = [r for r in walk_local(owner.node) if isinstance(r, ast.Return)]
        returns_title = bool(rets) and all(
            r.value is title_expr or (isinstance(r.value, ast.Name) and title_name is not None and r.value.id == title_name) for r in rets
        )
        if tok not in owner.params or not returns_title:
            raise Unsupported(f"{owner.fq}: helper that builds the title not understood")
        shift = 1 if (owner.cls is not None and owner.params and owner.params[0] in ("self", "cls")) else 0
        arg = arg_or_kw(call_in_fi, owner.params.index(tok) - shift, tok)
        if not isinstance(arg, ast.Name):
            raise Unsupported(f"{fi.module.site(call_in_fi)}: token handed to {owner.qualname} not understood")
        offset = _token_offset(fi, arg.id)
        tj = parent(call_in_fi)
        title_name = tj.targets[0].id if isinstance(tj, ast.Assign) and tj.value is call_in_fi and len(tj.targets) == 1 and isinstance(tj.targets[0], ast.Name) else None
        title_expr = call_in_fi
    if offset is None:
        raise Unsupported(f"{fi.fq}: position of the inline token `{tok}` relative to the heading token not understood")
    return {
        "sep": g["sep"],
        "elt": elt.attr,
        "filter": fattr,
        "types": types,
        "collection": coll_attr,
        "offset": offset,
        "types_node": lit,
        "join": g["node"],
        "owner": owner,
        "title_name": title_name,
        "title_expr": title_expr,
    }


def _fp_val(fp: dict) -> dict:
    return {k: fp[k] for k in ("sep", "elt", "filter", "types", "collection", "offset")}


# ---------------------------------------------------------------------------
# R2


@rule("C10.R2")
def r2_sibling_agreement(corpus: Corpus, rep: Report, tier: str):
    rep.rule("C10.R2", "the CLI slugs with the renderer's default function; regex/str pipeline follow the documented GitHub rule (marks and joiners kept); title construction agrees with mdit_py_plugins.anchors; the CLI filters by its level, drops a BOM and tokenises like a default-configured render; nested headings")
    sib = _sibling(corpus, rep)
    dfi, _sel = _default_slug_func(corpus)
    sfi = _sibling_default_slug_func(sib)
    rep.saw_function(dfi.fq)
    mine = slug_pipeline(dfi)
    theirs = slug_pipeline(sfi)
    site = dfi.site()
    # which slug function does the CLI give to the plugin?  (none: the plugin's own `slugify`)
    cli, pa, _fam, uf, use = _cli_use(corpus)
    sf_arg = kwarg(use, "slug_func")
    cli_func: FunctionInfo | None = None
    if sf_arg is not None:
        d_ = dotted(sf_arg)
        cli_func = corpus.find_function(cli.resolve(d_)) if d_ else None
        if cli_func is None:
            raise Unsupported(f"{cli.site(sf_arg)}: slug function given to anchors_plugin by the CLI not understood: {short(sf_arg, 40)}")
    wired = cli_func is not None and cli_func.fq == dfi.fq
    kcli = f"{pa.fq}|CLI slugs with the renderer's default slug function"
    if wired:
        rep.ok("C10.R2", kcli, cli.site(use), f"anchors_plugin(slug_func={dfi.qualname})")
        reference = [o for o in theirs if o[0] != "strip"]  # the plugin's own strip() never runs; the documented rule has none
        ref_name = f"the documented rule as transcribed in the plugin's {sfi.qualname} (lower-case, spaces to hyphens, punctuation removed)"
    else:
        other = slug_pipeline(cli_func) if cli_func is not None else theirs
        ref_name = f"{cli_func.qualname if cli_func is not None else 'the plugin ' + sfi.qualname}, which myst-anchors slugs with"
        reference = other
        if [_op_val(o) for o in _normal_order_ops(mine)] == [_op_val(o) for o in _normal_order_ops(other)]:
            rep.ok("C10.R2", kcli, cli.site(use), f"myst-anchors slugs with {ref_name.split(',')[0]}: same operations as {dfi.qualname}")
        else:
            rep.violation(
                "C10.R2",
                kcli,
                cli.site(use),
                f"myst-anchors slugs with {ref_name.split(',')[0]} ({' -> '.join(_op_text(x) for x in other)}) while the renderer's default is {dfi.qualname} "
                f"({' -> '.join(_op_text(x) for x in mine)}): the printed anchors differ from the assigned ones (e.g. for combining marks / surrounding spaces)",
            )
    # (a) regex
    rm = [o for o in mine if o[0] == "re.sub"]
    rt = [o for o in reference if o[0] == "re.sub"]
    if len(rm) != 1 or len(rt) != 1:
        raise Unsupported(f"expected one regex substitution on each side (MyST {len(rm)}, reference {len(rt)})")
    k = f"{dfi.fq}|slug regex"
    rsite = dfi.module.site(rm[0][5])
    same_repl = rm[0][3] == rt[0][3] or (wired and rm[0][3].startswith("keep:"))
    if rm[0][1] == rt[0][1] and rm[0][2] == rt[0][2] and same_repl:
        rep.ok("C10.R2", k, rsite, f"regex tree and flags equal the reference's ({rm[0][4]!r}); replacement {rm[0][3]!r}")
    else:
        what = []
        if rm[0][1] != rt[0][1]:
            what.append(f"pattern {rm[0][4]!r} parses to a different tree than {rt[0][4]!r}")
        if rm[0][2] != rt[0][2]:
            what.append(f"flags {rm[0][2]} vs {rt[0][2]}")
        if not same_repl:
            what.append(f"replacement {rm[0][3]!r} vs {rt[0][3]!r}")
        rep.violation("C10.R2", k, rsite, "; ".join(what) + f" ({ref_name})")
    # GitHub removes what is outside Ruby's \\p{Word}; Python's \\w lacks the combining marks and the join controls
    k = f"{dfi.fq}|punctuation removal keeps combining marks and joiners"
    if any(tok in rm[0][1] for tok in ("CATEGORY_WORD",)):
        lost = _keeps_word_chars(rm[0][3])
        if lost:
            rep.violation(
                "C10.R2",
                k,
                rsite,
                f"characters not matched by `\\w` are replaced by {rm[0][3]!r}: {', '.join(lost)} are deleted from the anchor although GitHub's rule ([^\\p{{Word}}\\- ]) keeps them - "
                "'# \u0939\u093f\u0928\u094d\u0926\u0940' becomes '\u0939\u0928\u0926', Thai tone variants collapse into one slug",
            )
        else:
            rep.ok("C10.R2", k, rsite, rm[0][3])
        # Python's \w also differs from \p{Word} in two categories that no replacement callable repairs by itself:
        # 'other number' (No) is matched by \w (kept), connector punctuation (Pc) other than '_' is not (removed)
        kw_ = f"{dfi.fq}|Python's word class stands in for GitHub's: other-number characters kept, connector punctuation removed"
        facts_ = set(rm[0][3][5:].split(",")) if rm[0][3].startswith("keep:") else set()
        if "cat:Pc" in facts_ or "cat:P*" in facts_:
            raise Unsupported(f"{rsite}: the replacement keeps connector punctuation; agreement of the remaining categories with GitHub's word class not decided")
        rep.violation(
            "C10.R2",
            kw_,
            rsite,
            "the kept class is Python's `\\w`, which contains the 'other number' characters (No: superscripts, fractions, circled digits) that GitHub's \\p{Word} lacks, and lacks the "
            "connector punctuation (Pc) other than '_' that it contains: '# CO₂ per m²' gets 'co₂-per-m²' where GitHub gives 'co-per-m', "
            "'# snake‿case' gets 'snakecase' where GitHub keeps the connector",
        )
    else:
        raise Unsupported(f"{rsite}: slug regex is not built on \\w; kept character set not decided")
    # (b) str pipeline
    sm = [o for o in mine if o[0] != "re.sub"]
    st = [o for o in reference if o[0] != "re.sub"]
    vm, vt = [_op_val(o) for o in sm], [_op_val(o) for o in st]
    missing = [o for o in st if _op_val(o) not in vm]
    extra = [o for o in sm if _op_val(o) not in vt]
    for o in missing:
        rep.violation(
            "C10.R2",
            f"{dfi.fq}|title pipeline|missing {_op_text(o)}",
            site,
            f"{dfi.qualname} applies {' -> '.join(_op_text(x) for x in mine) or 'nothing'}; {ref_name} applies "
            f"{' -> '.join(_op_text(x) for x in reference)}: `{_op_text(o)}` is missing",
        )
    for o in extra:
        rep.violation(
            "C10.R2",
            f"{dfi.fq}|title pipeline|extra {_op_text(o)}",
            dfi.module.site(o[2]),
            f"{dfi.qualname} applies `{_op_text(o)}`, which {ref_name} does not",
        )
    k = f"{dfi.fq}|title pipeline order"
    if not missing and not extra:
        if [v[:2] if v[0] != "re.sub" else v[:1] for v in _normal_order(mine)] == [v[:2] if v[0] != "re.sub" else v[:1] for v in _normal_order(reference)]:
            rep.ok("C10.R2", k, site, " -> ".join(_op_text(x) for x in mine))
        else:
            rep.error("C10.R2", f"{site}: same slug operations as the reference in a different order ({' -> '.join(_op_text(x) for x in mine)}); equivalence not decided")
    for o in sm:
        if o not in extra:
            rep.ok("C10.R2", f"{dfi.fq}|title pipeline|{_op_text(o)}", dfi.module.site(o[2]), "part of the documented rule")
    # (c) title construction
    cus = corpus.func(CUS)
    fp = title_fingerprint(cus, corpus)
    if fp is None:
        raise Unsupported(f"{cus.fq}: title join not found")
    tmod = fp["owner"].module
    sfps = [(f, title_fingerprint(f)) for f in sib.functions.values() if not f.is_lambda]
    sfps = [(f, x) for f, x in sfps if x is not None]
    if len(sfps) != 1:
        raise Unsupported(f"{SIBLING}: expected one title join, found {len(sfps)}")
    sf, sfp = sfps[0]
    a, b = _fp_val(fp), _fp_val(sfp)
    for field, label in (("types", "token types"), ("elt", "joined attribute"), ("sep", "join separator"), ("collection", "token collection"), ("offset", "inline-token offset"), ("filter", "filter attribute")):
        k = f"{cus.fq}|title {label}"
        tsite = tmod.site(fp["types_node"] if field == "types" else fp["join"])
        if a[field] == b[field]:
            rep.ok("C10.R2", k, tsite, f"{sorted(a[field]) if field == 'types' else a[field]!r}")
        else:
            av = sorted(a[field]) if field == "types" else a[field]
            bv = sorted(b[field]) if field == "types" else b[field]
            rep.violation("C10.R2", k, tsite, f"title is built with {label} {av!r}; the plugin ({sf.qualname}) uses {bv!r}")
    # the slug function is applied to that title
    sel = _sel
    tname = fp["title_name"]
    k = f"{cus.fq}|slug function applied to the joined title"

    def is_title(e: ast.expr) -> bool:
        return bool((tname and isinstance(e, ast.Name) and e.id == tname) or (fp["title_expr"] is not None and e is fp["title_expr"]))

    for call in sel["calls"]:
        if len(call.args) != 1 or call.keywords:
            raise Unsupported(f"{cus.module.site(call)}: call form of the slug function not understood")
        arms = [call.args[0]]
        while any(isinstance(a_, ast.IfExp) for a_ in arms):
            arms = [x for a_ in arms for x in ([a_.body, a_.orelse] if isinstance(a_, ast.IfExp) else [a_])]
        foreign = [a_ for a_ in arms if not is_title(a_)]
        if not foreign:
            rep.ok("C10.R2", k, cus.module.site(call))
        elif len(arms) > 1 and any(is_title(a_) for a_ in arms) and not (tname and tname in _names(foreign[0])):
            rep.violation(
                "C10.R2", f"{cus.fq}|title has a single source|{short(foreign[0], 40)}", cus.module.site(call),
                f"on some headings the slug is computed from `{short(foreign[0], 50)}` instead of the joined {sorted(a['types'])} children: the plugin (myst-anchors) always uses the join",
            )
        else:
            raise Unsupported(f"{cus.module.site(call)}: argument of the slug function is not the joined title")
    # every definition of the title is that join
    tfn = cus  # the title name lives in compute_unique_slug, also when a helper builds the title
    if tname is not None:
        join_stmt = parent(fp["title_expr"]) if fp["title_expr"] is not None else None
        for d in _assigns_to(tfn, tname):
            if d is join_stmt:
                continue
            if fp["title_expr"] is None and ((isinstance(d, ast.Assign) and isinstance(d.value, ast.Constant) and d.value.value == "") or (isinstance(d, ast.AugAssign) and enclosing_loop(d, tfn) is fp["join"])):
                continue  # accumulation form: initialisation and the `+=` inside the gather loop
            val = d.value
            if val is None:
                continue
            if tname in _names(val):
                raise Unsupported(f"{tfn.module.site(d)}: the title is post-processed before slugging (`{short(d, 50)}`); agreement with the plugin not decided")
            rep.violation(
                "C10.R2", f"{cus.fq}|title has a single source|{short(val, 40)}", tfn.module.site(d),
                f"the title is also taken from `{short(val, 50)}`: the plugin (myst-anchors) builds it only by joining the {sorted(a['types'])} children of the inline token, "
                "so headings that take this path (e.g. with entities, escapes or typographic replacements, whose raw source differs from the text tokens) get a different anchor",
            )
    # (d) CLI
    _r2_cli(corpus, rep, sib)
    rep.expect_min("C10.R2", 9, "regex, pipeline ops, six title fields, CLI level")


def _cli_use(corpus: Corpus):
    """(cli module, print_anchors, its function family, function holding `.use(anchors_plugin ...)`, that call)."""
    cli = corpus.mod("cli")
    pa = cli.func("print_anchors")
    # the command and the functions of the module it (transitively) calls, with their nested functions / lambdas
    g_ = get_callgraph(corpus)
    tops = [pa]
    for _ in range(2):
        for t0 in list(tops):
            for _call, targets in g_.callees(t0):
                for t in g_.flat_targets(targets):
                    if t.module is cli and not t.is_lambda and t.parent_func is None and t.cls is None and t not in tops:
                        tops.append(t)
    fam = [f for q, f in cli.functions.items() if any(q == t.qualname or q.startswith(t.qualname + ".") for t in tops)]
    uses = []
    for f in fam:
        body = f.node.body if f.is_lambda else f.node
        for c in [n for n in (ast.walk(body) if f.is_lambda else walk_local(body, into_lambdas=False)) if isinstance(n, ast.Call)]:
            if isinstance(c.func, ast.Attribute) and c.func.attr == "use" and c.args and isinstance(c.args[0], ast.Name):
                full = cli.resolve(c.args[0].id)
                if full.startswith("mdit_py_plugins.anchors") and full.endswith(".anchors_plugin"):
                    uses.append((f, c))
    if len(uses) != 1:
        raise Unsupported(f"{pa.fq}: expected one `.use(anchors_plugin, ...)`, found {len(uses)}")
    return cli, pa, fam, uses[0][0], uses[0][1]


def _r2_cli(corpus: Corpus, rep: Report, sib: Module) -> None:
    cli, pa, fam, uf, use = _cli_use(corpus)
    rep.saw_function(pa.fq)
    rep.saw_call(cli.site(use))
    ap = sib.func("anchors_plugin")
    # plugin semantics: levels range(min_level, max_level + 1), min_level default 1
    a = ap.node.args
    defaults = dict(zip([x.arg for x in a.args][len(a.args) - len(a.defaults):], a.defaults))
    rng = find_node(ap, lambda n: isinstance(n, ast.Call) and dotted(n.func) == "range" and len(n.args) == 2)
    if not (
        isinstance(defaults.get("min_level"), ast.Constant)
        and defaults["min_level"].value == 1
        and rng is not None
        and unparse(rng.args[0]) == "min_level"
        and unparse(rng.args[1]) == "max_level + 1"
    ):
        raise Unsupported(f"{SIBLING}: anchors_plugin no longer selects range(min_level=1, max_level + 1)")
    if any(k.arg in ("min_level",) or k.arg is None for k in use.keywords) or len(use.args) > 1:
        raise Unsupported(f"{cli.site(use)}: anchors_plugin installed with arguments other than max_level / slug_func")
    mx = kwarg(use, "max_level")
    k = f"{pa.fq}|CLI anchor level vs filter level"
    if mx is None:
        mx_text = unparse(defaults["max_level"]) if "max_level" in defaults else None
    else:
        mx_text = unparse(mx)
    # the filter: int(t.tag[1]) <= LEVEL
    comps = []
    for f in fam:
        nodes_ = ast.walk(f.node.body) if f.is_lambda else walk_local(f.node, into_lambdas=False)
        for n in nodes_:
            if isinstance(n, ast.Compare) and len(n.ops) == 1:
                sides = [n.left, n.comparators[0]]
                isl = [isinstance(s, ast.Call) and dotted(s.func) == "int" and len(s.args) == 1 and "tag" in unparse(s.args[0]) for s in sides]
                if isl[0] != isl[1]:
                    comps.append((f, n, 0 if isl[0] else 1))
    if len(comps) != 1:
        raise Unsupported(f"{pa.fq}: expected one heading-level filter comparison, found {len(comps)}")
    ff, cmp_, lvl_side = comps[0]
    other = cmp_.comparators[0] if lvl_side == 0 else cmp_.left
    op = type(cmp_.ops[0])
    rel = {ast.LtE: "le", ast.Lt: "lt", ast.GtE: "ge", ast.Gt: "gt"}.get(op)
    if rel is None:
        raise Unsupported(f"{cli.site(cmp_)}: level filter operator not understood")
    if lvl_side == 1:
        rel = {"le": "ge", "lt": "gt", "ge": "le", "gt": "lt"}[rel]
    problems = []
    if rel != "le":
        problems.append(f"the filter keeps headings with level {rel} {unparse(other)} but the plugin anchors levels 1..max_level inclusive")
    other_text = _resolve_alias(other, ff)
    if mx is not None:
        mx_text = _resolve_alias(mx, uf)
    if mx_text != other_text:
        problems.append(f"the plugin is installed with max_level={mx_text} but headings are filtered by {unparse(other)}")
    if problems:
        rep.violation("C10.R2", k, cli.site(cmp_), "; ".join(problems))
    else:
        rep.ok("C10.R2", k, cli.site(cmp_), f"max_level={mx_text}, filter level <= {unparse(other)}")
    # depth 0 is a legal depth (no anchors): the level may not go through a truthiness default
    k0 = f"{pa.fq}|CLI depth 0 is honoured"
    falsy = None
    for owner_f, e in ((uf, mx), (ff, other)):
        if e is None:
            continue
        for src in _key_sources(corpus, owner_f, e, 4):
            for x in ast.walk(src):
                if isinstance(x, ast.BoolOp) and isinstance(x.op, ast.Or) and not isinstance(x.values[0], ast.Constant):
                    falsy = falsy or (x, f"`{short(x, 50)}`")
                if isinstance(x, ast.IfExp):
                    t = x.test
                    neg = isinstance(t, ast.UnaryOp) and isinstance(t.op, ast.Not)
                    t0 = t.operand if neg else t
                    picked = x.orelse if neg else x.body
                    if isinstance(t0, (ast.Name, ast.Attribute)) and unparse(t0) == unparse(picked):
                        falsy = falsy or (x, f"`{short(x, 50)}`")
    if falsy is not None:
        rep.violation(
            "C10.R2",
            k0,
            cli.site(falsy[0]),
            f"the depth goes through the truthiness default {falsy[1]}: `-l 0` (a legal depth: no anchors, like heading_anchors = 0) is replaced by the default, "
            "so the CLI prints anchors the renderer never assigns",
        )
    else:
        rep.ok("C10.R2", k0, cli.site(cmp_), "no `x or default` / `x if x else default` on the level")
    _r2_cli_filter_conjuncts(rep, cli, pa, ff, cmp_)
    _r2_cli_bom(rep, cli, pa, fam)
    bf = uf
    while bf.parent_func is not None:
        bf = bf.parent_func
    _r2_cli_tokeniser(corpus, rep, cli, pa, fam, use, bf)


# fields the parser factory reads that cannot change a token (re-verified on every run)
_FACTORY_NEUTRAL = {"words_per_minute": "only passed as per_minute= to the word-count plugin, which emits no token"}


def _factory_fields(corpus: Corpus, factory: FunctionInfo) -> dict[str, list[ast.Attribute]]:
    """Config fields the parser factory reads (attributes of its first parameter)."""
    cfgp = factory.params[0]
    out: dict[str, list[ast.Attribute]] = {}
    for n in walk_local(factory.node):
        if isinstance(n, ast.Attribute) and isinstance(n.value, ast.Name) and n.value.id == cfgp and isinstance(n.ctx, ast.Load):
            out.setdefault(n.attr, []).append(n)
    for fld in list(out):
        if fld in _FACTORY_NEUTRAL:
            for n in out[fld]:
                q = parent(n)
                c = parent(q) if isinstance(q, ast.keyword) else None
                if not (isinstance(q, ast.keyword) and q.arg == "per_minute" and isinstance(c, ast.Call) and any(isinstance(a, ast.Name) and a.id == "wordcount_plugin" for a in c.args)):
                    break
            else:
                del out[fld]
    return out


def _factory_closure(corpus: Corpus, h: FunctionInfo, depth: int = 2) -> dict[str, FunctionInfo]:
    """``h`` and the package functions it hands its configuration parameter on to (as first argument)."""
    out = {h.fq: h}
    if depth <= 0 or h.is_lambda or not h.params:
        return out
    g = get_callgraph(corpus)
    cfgp = h.params[0]
    for call, targets in g.callees(h):
        if call.args and isinstance(call.args[0], ast.Name) and call.args[0].id == cfgp:
            for t in g.flat_targets(targets):
                if not t.is_lambda and t.fq not in out and t.module.name.startswith("myst_parser.parsers"):
                    out.update(_factory_closure(corpus, t, depth - 1))
    return out


def _field_default(corpus: Corpus, fld: str):
    ci = corpus.cls("config.main:MdParserConfig")
    for st in ci.node.body:
        if isinstance(st, ast.AnnAssign) and isinstance(st.target, ast.Name) and st.target.id == fld:
            v = st.value
            if isinstance(v, ast.Call) and (dotted(v.func) or "").endswith("field"):
                d = kwarg(v, "default")
                if d is not None:
                    return ci.module.eval_const(d)
                fac = kwarg(v, "default_factory")
                if isinstance(fac, ast.Name) and fac.id in ("set", "list", "dict", "tuple", "frozenset"):
                    return {"set": set(), "list": [], "dict": {}, "tuple": (), "frozenset": frozenset()}[fac.id]
            elif v is not None:
                return ci.module.eval_const(v)
            raise Unsupported(f"default of MdParserConfig.{fld} not understood")
    raise Unsupported(f"MdParserConfig has no field {fld}")


def _rendered_text_drops_bom(cli: Module, fam: list[FunctionInfo], corpus: Corpus | None = None) -> bool:
    """The text given to `<parser>.render(...)` has passed a call that removes a LEADING U+FEFF (data flow through local
    names, helper parameters back to their call sites, and helpers that return the text)."""
    BOM = "\ufeff"

    def lit(e: ast.expr):
        """String value of a literal or of a module-level constant."""
        if isinstance(e, ast.Constant):
            return e.value if isinstance(e.value, str) else None
        if isinstance(e, ast.Name) and e.id in cli.const_nodes:
            try:
                v = cli.eval_const(e)
            except Unsupported:
                return None
            return v if isinstance(v, str) else None
        return None

    def strips_bom(src: ast.AST) -> bool:
        for c in ast.walk(src):
            if isinstance(c, ast.Call) and isinstance(c.func, ast.Attribute) and c.args:
                a0 = lit(c.args[0])
                if a0 is None:
                    continue
                if c.func.attr == "removeprefix" and a0 == BOM:
                    return True
                if c.func.attr in ("lstrip", "strip") and BOM in a0:
                    return True
                if c.func.attr == "replace" and a0 == BOM and len(c.args) >= 2 and lit(c.args[1]) == "":
                    return True
            if isinstance(c, ast.IfExp) and isinstance(c.body, ast.Subscript) and isinstance(c.body.slice, ast.Slice) and any(
                isinstance(x, ast.Call) and isinstance(x.func, ast.Attribute) and x.func.attr == "startswith" and x.args and lit(x.args[0]) == BOM for x in ast.walk(c.test)
            ):
                return True
        return False

    by_name = {g_.name: g_ for g_ in fam if not g_.is_lambda}

    def sources(f: FunctionInfo, e: ast.expr, depth: int) -> list[ast.expr]:
        out: list[ast.expr] = []
        for src in _key_sources(corpus, f, e, 4):
            out.append(src)
            if depth <= 0:
                continue
            # a helper of the command that returns the text
            for c in ast.walk(src):
                if isinstance(c, ast.Call) and isinstance(c.func, ast.Name) and c.func.id in by_name and by_name[c.func.id] is not f:
                    h = by_name[c.func.id]
                    for r in walk_local(h.node):
                        if isinstance(r, ast.Return) and r.value is not None:
                            out.extend(sources(h, r.value, depth - 1))
            # a parameter: what the callers in the family pass
            if isinstance(src, ast.Name) and src.id in f.params:
                idx = f.params.index(src.id)
                for g_ in by_name.values():
                    for c in walk_local(g_.node, into_lambdas=False):
                        if isinstance(c, ast.Call) and isinstance(c.func, ast.Name) and c.func.id == f.name:
                            a_ = arg_or_kw(c, idx, src.id)
                            if a_ is not None:
                                out.extend(sources(g_, a_, depth - 1))
        return out

    for f in fam:
        if f.is_lambda:
            continue
        for n in walk_local(f.node, into_lambdas=False):
            if isinstance(n, ast.Call) and isinstance(n.func, ast.Attribute) and n.func.attr == "render" and len(n.args) >= 1:
                if any(strips_bom(src) for src in sources(f, n.args[0], 3)):
                    return True
    return False


def _r2_cli_bom(rep: Report, cli: Module, pa: FunctionInfo, fam: list[FunctionInfo]) -> None:
    """docutils' and Sphinx' readers drop a leading U+FEFF; a CLI that keeps it does not see a heading on line 1."""
    k = f"{pa.fq}|CLI input is decoded without a byte order mark"
    opens = []
    for f in fam:
        nodes_ = ast.walk(f.node.body) if f.is_lambda else walk_local(f.node, into_lambdas=False)
        for n in nodes_:
            if not isinstance(n, ast.Call):
                continue
            full = cli.resolve(dotted(n.func) or "")
            last = full.split(".")[-1]
            if full in ("argparse.FileType", "open", "io.open", "codecs.open") or last in ("read_text",):
                mode = n.args[0] if (n.args and full == "argparse.FileType") else (n.args[1] if len(n.args) > 1 and full != "argparse.FileType" and last != "read_text" else kwarg(n, "mode"))
                if isinstance(mode, ast.Constant) and isinstance(mode.value, str) and ("w" in mode.value or "a" in mode.value or "b" in mode.value):
                    continue
                opens.append(n)
    if not opens:
        raise Unsupported(f"{pa.fq}: how the CLI opens its input is not understood")
    strips = _rendered_text_drops_bom(cli, fam)
    # the standard input (the documented default) is not opened by the command: only the text itself can lose the mark
    ks = f"{pa.fq}|text read from the standard input loses its byte order mark"
    stdin_uses = []
    for f in fam:
        for n in ast.walk(f.node.body) if f.is_lambda else walk_local(f.node):
            if isinstance(n, ast.Attribute) and n.attr == "stdin" and cli.resolve(dotted(n) or "") == "sys.stdin":
                stdin_uses.append(n)
    if stdin_uses:
        rewrapped = any(
            isinstance(c, ast.Call)
            and "stdin" in unparse(c)
            and any(isinstance(x, ast.Constant) and isinstance(x.value, str) and x.value.lower().replace("_", "-") in ("utf-8-sig", "utf8-sig") for x in ast.walk(c))
            and (dotted(c.func) or "").split(".")[-1] in ("reconfigure", "TextIOWrapper", "getreader", "open")
            for f in fam
            for c in (ast.walk(f.node.body) if f.is_lambda else walk_local(f.node))
        )
        if strips or rewrapped:
            rep.ok("C10.R2", ks, cli.site(stdin_uses[0]), "U+FEFF is removed from the text that is rendered" if strips else "stdin is re-opened as utf-8-sig")
        else:
            rep.violation(
                "C10.R2",
                ks,
                cli.site(stdin_uses[0]),
                "`sys.stdin` is an input of the command but only a named file is opened as utf-8-sig and the text handed to the parser is not stripped of a leading U+FEFF: "
                "`myst-anchors < doc.md` for a file starting with a byte order mark and `# Hello` does not print `hello`, which the build assigns and `myst-anchors doc.md` prints",
            )
    for n in opens:
        enc = kwarg(n, "encoding")
        if enc is None:
            raise Unsupported(f"{cli.site(n)}: input opened without an explicit encoding")
        if not (isinstance(enc, ast.Constant) and isinstance(enc.value, str)):
            raise Unsupported(f"{cli.site(n)}: encoding of the CLI input is not a literal")
        norm = enc.value.lower().replace("_", "-")
        if norm in ("utf-8-sig", "utf8-sig") or strips:
            rep.ok("C10.R2", k, cli.site(n), f"encoding={enc.value!r}" + (" and U+FEFF removed explicitly" if strips else ""))
        elif norm in ("utf-8", "utf8", "u8"):
            rep.violation(
                "C10.R2",
                k,
                cli.site(n),
                f"the input is decoded as {enc.value!r}: a file that starts with a byte order mark keeps U+FEFF in front of its first line, so `# Title` on line 1 is not a heading "
                "for myst-anchors, although docutils and Sphinx (which drop the BOM) assign it the anchor `title`",
            )
        else:
            raise Unsupported(f"{cli.site(n)}: encoding {enc.value!r} of the CLI input not judged")


def _nested_context_names(nrt: FunctionInfo, corpus: Corpus) -> set[str]:
    """Attributes of self / keys of self.md_env that nested_render_text (nested functions included) writes."""
    out: set[str] = set()
    fns = [nrt] + [f for f in nrt.module.functions.values() if f.qualname.startswith(nrt.qualname + ".") and not f.is_lambda]
    for f in fns:
        for n in walk_local(f.node):
            tg = n.targets if isinstance(n, ast.Assign) else ([n.target] if isinstance(n, (ast.AnnAssign, ast.AugAssign)) else [])
            for t in tg:
                if isinstance(t, ast.Attribute) and isinstance(t.value, ast.Name) and t.value.id == "self":
                    out.add(t.attr)
                if isinstance(t, ast.Subscript) and isinstance(t.slice, ast.Constant) and isinstance(t.slice.value, str):
                    out.add(t.slice.value)
    return out


def _r2_cli_nested_headings(corpus: Corpus, rep: Report, cli: Module, fcall: ast.Call | None) -> None:
    """myst-anchors tokenises the file once; the renderer also slugs headings it reaches through nested renders
    (directive bodies, includes, substitutions) in the same uniqueness history."""
    g = get_callgraph(corpus)
    for fi, call in _cus_call_sites(corpus):
        if fi.cls is None:
            continue
        k = f"{fi.fq}|headings reached through nested renders share the slug history that myst-anchors cannot see"
        site = fi.module.site(call)
        # (1) the CLI lists what the MyST renderer assigned: its parser is built with a DocutilsRenderer (sub)class
        if fcall is not None and len(fcall.args) >= 2:
            rcls = corpus.find_class(cli.resolve(dotted(fcall.args[1]) or ""))
            if rcls is not None and any(c.fq == fi.cls.fq for c in corpus.mro(rcls)):
                rep.ok("C10.R2", k, cli.site(fcall), f"myst-anchors renders with {rcls.name}: it reports the anchors the renderer assigns")
                continue
        nrt = corpus.lookup_method(fi.cls, "nested_render_text")
        if nrt is None or fi.fq not in g.reachable([nrt]):
            rep.ok("C10.R2", k, site, "slug computation is not reachable from a nested render")
            continue
        marks = _nested_context_names(nrt, corpus)
        guards_ = []
        cfg = get_cfg(fi)
        guards_ += [t for t, _pol in cfg.guards(cfg.stmt_of(call))]
        for ufi, ucall in g.callers().get(fi.fq, []):
            ucfg = get_cfg(ufi)
            guards_ += [t for t, _pol in ucfg.guards(ucfg.stmt_of(ucall))]
        ctx = [t for t in guards_ if {x.attr for x in ast.walk(t) if isinstance(x, ast.Attribute)} & marks or {x.value for x in ast.walk(t) if isinstance(x, ast.Constant) and isinstance(x.value, str)} & marks]
        if ctx:
            raise Unsupported(f"{fi.module.site(ctx[0])}: slug computation is guarded by nested-render state (`{short(ctx[0], 50)}`); whether nested headings are excluded is not decided")
        rep.violation(
            "C10.R2",
            k,
            site,
            f"{fi.qualname} is reached from {nrt.qualname} (directive bodies, {{include}}, substitutions) and takes the next free suffix of the one per-document history, while "
            "myst-anchors slugs the top-level markdown-it tokens only (a directive is an opaque fence): `# Setup`, a {note} containing `## Setup`, `## Setup` gives "
            "setup, setup-1 (the rubric in the note), setup-2 in a build but setup, setup-1 from myst-anchors, so the printed anchor of the last heading links into the admonition",
            [f"{nrt.module.site(nrt.node)} {nrt.qualname}", f"{site} {short(call, 50)}", f"{cli.rel} print_anchors: one markdown-it pass over the file text"],
        )


def _r2_cli_file_level_config(corpus: Corpus, rep: Report, cli: Module, pa: FunctionInfo, fam: list[FunctionInfo], fronts: list[FunctionInfo], fcall: ast.Call) -> None:
    """Both front ends merge the file's own `myst:` front matter into the configuration before they build the parser;
    a listing command that does not tokenises such a file with other syntax extensions than the build."""
    g = get_callgraph(corpus)
    mergers = set()
    for fr in fronts:
        for call, targets in g.callees(fr):
            for t in g.flat_targets(targets):
                if t.module.name.endswith("config.main") and t.name in ("merge_file_level", "read_topmatter"):
                    mergers.add(t.fq)
    k = f"{pa.fq}|CLI ignores the file-level configuration that the front ends merge"
    if not mergers:
        rep.ok("C10.R2", k, cli.site(fcall), "the front ends do not merge file-level configuration")
        return
    called = set()
    for f in fam:
        if f.is_lambda:
            continue
        for call, targets in g.callees(f):
            for t in g.flat_targets(targets):
                called.add(t.fq)
    if mergers & called:
        rep.ok("C10.R2", k, cli.site(fcall), f"myst-anchors calls {sorted(m.split(':')[1] for m in mergers & called)}")
    else:
        rep.violation(
            "C10.R2",
            k,
            cli.site(fcall),
            f"the front ends call {', '.join(sorted(m.split(':')[1] for m in mergers))} on every file and build the parser from the merged configuration; myst-anchors never does, so for a file "
            "whose own `myst:` front matter enables extensions (dollarmath with `# Energy $E=mc^2$ explained`, deflist with a heading inside a definition) it prints "
            "`energy-emc2-explained` / one `inside` while a build assigns `energy--explained` / `inside`, `inside-1`",
        )


def _r2_cli_filter_conjuncts(rep: Report, cli: Module, pa: FunctionInfo, ff: FunctionInfo, cmp_: ast.Compare) -> None:
    """The renderer anchors every heading within the depth; the CLI's output filter may test heading-ness and depth only."""
    k = f"{pa.fq}|CLI filter keeps every heading within the depth"
    # the comprehension (or if statement) whose condition contains the depth comparison
    holder = None
    n: ast.AST | None = cmp_
    while n is not None and n is not ff.node:
        q = parent(n)
        if isinstance(q, ast.comprehension) and any(n is i or n in ast.walk(i) for i in q.ifs):
            holder = q
            break
        n = q
    if holder is None or not isinstance(holder.target, ast.Name):
        rep.note("C10.R2: CLI heading filter is not a comprehension condition; extra conditions not judged")
        return
    tok = holder.target.id
    conj: list[ast.expr] = []
    for i in holder.ifs:
        conj.extend(i.values if isinstance(i, ast.BoolOp) and isinstance(i.op, ast.And) else [i])
    if not any(c is cmp_ for c in conj):
        raise Unsupported(f"{cli.site(cmp_)}: the depth comparison is not a top-level conjunct of the CLI filter")
    extra = []
    for c in conj:
        if c is cmp_:
            continue
        attrs = {x.attr for x in ast.walk(c) if isinstance(x, ast.Attribute) and isinstance(x.value, ast.Name) and x.value.id == tok}
        if not attrs:
            if tok in _names(c):
                raise Unsupported(f"{cli.site(c)}: CLI filter condition on the token not understood: {short(c, 50)}")
            raise Unsupported(f"{cli.site(c)}: CLI filter depends on `{short(c, 40)}`, which is not a property of the token")
        if attrs <= {"type"}:
            lits = [x.value for x in ast.walk(c) if isinstance(x, ast.Constant) and isinstance(x.value, str)]
            if lits and all(v.startswith("heading_") for v in lits) and not any(isinstance(x, (ast.Not, ast.NotEq, ast.NotIn)) for x in ast.walk(c)):
                continue  # selects heading tokens
            raise Unsupported(f"{cli.site(c)}: token-type test of the CLI filter not understood: {short(c, 50)}")
        if attrs <= {"type", "tag"}:
            raise Unsupported(f"{cli.site(c)}: a second tag/depth test in the CLI filter is not understood: {short(c, 50)}")
        extra.append((c, sorted(attrs - {"type", "tag"})))
    if extra:
        c, attrs = extra[0]
        rep.violation(
            "C10.R2",
            k,
            cli.site(c),
            f"myst-anchors additionally drops headings by `{short(c, 60)}` (token attribute {', '.join(attrs)}); the renderer gives every heading within the depth an anchor "
            "(also one nested in a block quote or list item, rendered as a rubric), so anchors assigned during rendering are missing from the listing",
        )
    else:
        rep.ok("C10.R2", k, cli.site(cmp_), "conditions: heading token type and depth only")


def _r2_cli_tokeniser(corpus: Corpus, rep: Report, cli: Module, pa: FunctionInfo, fam: list[FunctionInfo], use: ast.Call, bf: FunctionInfo | None = None) -> None:
    """The CLI must tokenise the file as a default-configured render does: same factory, default config, no rule switched."""
    g = get_callgraph(corpus)
    bf = bf or pa
    # the factory the two front ends use
    fronts = [corpus.func("parsers.docutils_:Parser.parse"), corpus.func("parsers.sphinx_:MystParser.parse")]
    factories = set()
    for fr in fronts:
        hit = None
        for call, targets in g.callees(fr):
            for t in g.flat_targets(targets):
                if len(call.args) == 2 and (dotted(call.args[1]) or "").endswith("Renderer") and t.module.name.endswith("parsers.mdit"):
                    hit = t
        if hit is None:
            raise Unsupported(f"{fr.fq}: parser factory call not found")
        factories.add(hit.fq)
    if len(factories) != 1:
        raise Unsupported(f"front ends build their parsers with different factories: {sorted(factories)}")
    factory = corpus.func(factories.pop().replace("myst_parser.", "", 1))
    rep.saw_function(factory.fq)
    # a factory may wrap another one (cache, convenience wrapper): the functions that receive the same
    # configuration object onwards build the same parser
    family = _factory_closure(corpus, factory)
    calls = []
    for call, targets in g.callees(bf):
        for t in g.flat_targets(targets):
            if not t.is_lambda and t.params and set(_factory_closure(corpus, t)) & set(family):
                calls.append((call, targets))
                family = {**family, **_factory_closure(corpus, t)}
                break
    k = f"{pa.fq}|CLI parser built by the renderers' factory with the default configuration"
    # the parser object `.use(anchors_plugin)` is applied to
    pvar = use.func.value
    if not calls:
        if isinstance(pvar, ast.Name):
            ds = _assigns_to(bf, pvar.id)
            if len(ds) == 1 and isinstance(ds[0], ast.Assign) and isinstance(ds[0].value, ast.Call):
                full = cli.resolve(dotted(ds[0].value.func) or "")
                if full.startswith("markdown_it."):
                    rep.violation(
                        "C10.R2", k, cli.site(ds[0]),
                        f"myst-anchors builds its own `{short(ds[0].value, 50)}` instead of calling {factory.qualname}: MyST block/inline syntax (front matter, % comments, roles, ...) is tokenised differently than when the file is rendered",
                    )
                    return
        raise Unsupported(f"{pa.fq}: no call of {factory.qualname} found")
    if len(calls) != 1:
        raise Unsupported(f"{pa.fq}: several calls of {factory.qualname}")
    fcall = calls[0][0]
    rep.saw_call(cli.site(fcall))
    _r2_cli_nested_headings(corpus, rep, cli, fcall)
    _r2_cli_file_level_config(corpus, rep, cli, pa, fam, fronts, fcall)
    carg = arg_or_kw(fcall, 0, factory.params[0])
    if isinstance(carg, ast.Name):
        ds = _assigns_to(bf, carg.id)
        if len(ds) != 1 or not isinstance(ds[0], ast.Assign):
            raise Unsupported(f"{cli.site(fcall)}: configuration `{carg.id}` is not assigned exactly once")
        carg = ds[0].value
    if not isinstance(carg, ast.Call):
        raise Unsupported(f"{cli.site(fcall)}: configuration argument not understood: {short(carg, 40) if carg is not None else None}")
    overrides: dict[str, ast.expr] = {}
    node = carg
    while True:  # MdParserConfig(**kw) optionally followed by .copy(**kw)
        if any(kw.arg is None for kw in node.keywords) or node.args:
            raise Unsupported(f"{cli.site(node)}: configuration built with positional / ** arguments")
        for kw in node.keywords:
            overrides.setdefault(kw.arg, kw.value)
        if isinstance(node.func, ast.Attribute) and node.func.attr == "copy" and isinstance(node.func.value, ast.Call):
            node = node.func.value
            continue
        break
    if not cli.resolve(dotted(node.func) or "").endswith("config.main.MdParserConfig"):
        raise Unsupported(f"{cli.site(node)}: configuration is not an MdParserConfig(...) construction")
    fields: dict[str, list[ast.Attribute]] = {}
    for member in family.values():
        for f_, ns in _factory_fields(corpus, member).items():
            fields.setdefault(f_, []).extend(ns)
    if len(fields) < 5:
        raise Unsupported(f"{factory.fq}: reads only {len(fields)} config fields; factory not understood")
    bad = {}
    for f_, v in overrides.items():
        if f_ not in fields:
            continue
        try:
            val = cli.eval_const(v)
        except Unsupported:
            raise Unsupported(f"{cli.site(v)}: myst-anchors sets {f_}={short(v, 30)} from a run-time value; whether it equals the rendering configuration is not decided") from None
        if val != _field_default(corpus, f_):
            bad[f_] = v
    csite = cli.site(fcall)
    if bad:
        rep.violation(
            "C10.R2", k, csite,
            "myst-anchors parses with " + ", ".join(f"{f_}={unparse(v)}" for f_, v in sorted(bad.items()))
            + f": {factory.qualname} reads {'these fields' if len(bad) > 1 else 'this field'} to choose the syntax rules, so the CLI tokenises the file differently from a "
            "default-configured render (headings appear/disappear or their inline content changes) and the printed anchors differ from the assigned ones",
        )
    else:
        rep.ok("C10.R2", k, csite, f"{short(carg, 50)}; none of the {len(fields)} fields the factory reads is overridden")
    # no syntax rule switched on/off after construction
    k = f"{pa.fq}|CLI does not switch syntax rules after construction"
    switched = []
    for f in fam:
        nodes_ = ast.walk(f.node.body) if f.is_lambda else walk_local(f.node, into_lambdas=False)
        for n in nodes_:
            if isinstance(n, ast.Call) and isinstance(n.func, ast.Attribute) and n.func.attr in ("enable", "disable", "enableOnly"):
                switched.append(n)
    if switched:
        rep.violation("C10.R2", k, cli.site(switched[0]), f"`{short(switched[0], 60)}` changes the active syntax rules of the parser the renderers use unchanged: the CLI tokenises differently")
    else:
        rep.ok("C10.R2", k, cli.site(fcall))


# ---------------------------------------------------------------------------
# slug function selection (shared by R2 and R4)


def slug_func_selection(corpus: Corpus) -> dict:
    """Which parameter of compute_unique_slug carries the configured function, which name is called, the default."""

    def build():
        cus = corpus.func(CUS)
        sites = _cus_call_sites(corpus)
        pnames = set()
        for fi, call in sites:
            hit = None
            for i, a in enumerate(call.args):
                if isinstance(a, ast.Attribute) and a.attr == "heading_slug_func" and i < len(cus.params):
                    hit = cus.params[i]
            for kw in call.keywords:
                if isinstance(kw.value, ast.Attribute) and kw.value.attr == "heading_slug_func":
                    hit = kw.arg
            if hit is None:
                raise Unsupported(f"{fi.module.site(call)}: the configured heading_slug_func is not passed to compute_unique_slug")
            pnames.add(hit)
        if len(pnames) != 1:
            raise Unsupported("compute_unique_slug receives the slug function through different parameters")
        p = pnames.pop()
        # names bound to the selected function
        sel_defs = []
        for n in walk_local(cus.node):
            if isinstance(n, ast.Assign) and len(n.targets) == 1 and isinstance(n.targets[0], ast.Name) and p in _names(n.value) and isinstance(n.value, (ast.IfExp, ast.BoolOp)):
                sel_defs.append(n)
        if len(sel_defs) != 1:
            raise Unsupported(f"{cus.fq}: expected one selection `f = default if {p} is None else {p}`, found {len(sel_defs)}")
        sd = sel_defs[0]
        v = sd.value
        when_none = when_set = None
        if isinstance(v, ast.BoolOp) and isinstance(v.op, ast.Or) and len(v.values) == 2:
            when_set, when_none = v.values[0], v.values[1]
            if not (isinstance(when_set, ast.Name) and when_set.id == p):
                raise Unsupported(f"{cus.fq}: selection `{short(v, 40)}` not understood")
        elif isinstance(v, ast.IfExp):
            t = v.test
            pol = None
            if isinstance(t, ast.Compare) and len(t.ops) == 1 and isinstance(t.left, ast.Name) and t.left.id == p and isinstance(t.comparators[0], ast.Constant) and t.comparators[0].value is None:
                pol = {ast.Is: True, ast.IsNot: False, ast.Eq: True, ast.NotEq: False}.get(type(t.ops[0]))
            elif isinstance(t, ast.Name) and t.id == p:
                pol = False
            elif isinstance(t, ast.UnaryOp) and isinstance(t.op, ast.Not) and isinstance(t.operand, ast.Name) and t.operand.id == p:
                pol = True
            if pol is None:
                raise Unsupported(f"{cus.fq}: selection test `{short(t, 40)}` not understood")
            when_none, when_set = (v.body, v.orelse) if pol else (v.orelse, v.body)
        else:
            raise Unsupported(f"{cus.fq}: selection `{short(v, 40)}` not understood")
        called = sd.targets[0].id
        calls = [c for c in walk_local(cus.node) if isinstance(c, ast.Call) and isinstance(c.func, ast.Name) and c.func.id == called and c.lineno > sd.lineno]
        raw = [c for c in walk_local(cus.node) if isinstance(c, ast.Call) and isinstance(c.func, ast.Name) and c.func.id == p and c.lineno < sd.lineno]
        if raw:
            raise Unsupported(f"{cus.fq}: `{p}` is called before the default is selected")
        if not isinstance(when_none, ast.Name):
            raise Unsupported(f"{cus.fq}: default slug function is not a plain name: {short(when_none, 40)}")
        return {"param": p, "called": called, "calls": calls, "sel": sd, "when_set": when_set, "default": when_none.id}

    return corpus.cache("c10-selection", build)


# ---------------------------------------------------------------------------
# R3 depth orientation


def _depth_relation(test: ast.expr, pol: bool, fi: FunctionInfo) -> str | None:
    """'le'/'lt'/'ge'/'gt'/'other' = relation `level REL heading_anchors` implied by (test, pol); None if unrelated."""

    def is_anchor(e: ast.expr) -> bool:
        if isinstance(e, ast.Attribute) and e.attr == "heading_anchors":
            return True
        if isinstance(e, ast.Name):
            ds = _assigns_to(fi, e.id)
            return len(ds) == 1 and isinstance(ds[0], ast.Assign) and isinstance(ds[0].value, ast.Attribute) and ds[0].value.attr == "heading_anchors"
        return False

    if not any(isinstance(x, ast.Attribute) and x.attr == "heading_anchors" for x in ast.walk(test)) and not any(is_anchor(x) for x in ast.walk(test) if isinstance(x, ast.Name)):
        return None
    if not (isinstance(test, ast.Compare) and len(test.ops) == 1):
        return "other"
    l, r = test.left, test.comparators[0]
    rel = {ast.LtE: "le", ast.Lt: "lt", ast.GtE: "ge", ast.Gt: "gt"}.get(type(test.ops[0]))
    if rel is None:
        return "other"
    if is_anchor(l) and isinstance(r, ast.Name) and r.id in fi.params:
        rel = {"le": "ge", "lt": "gt", "ge": "le", "gt": "lt"}[rel]
    elif not (is_anchor(r) and isinstance(l, ast.Name) and l.id in fi.params):
        return "other"
    if not pol:
        rel = {"le": "gt", "lt": "ge", "ge": "lt", "gt": "le"}[rel]
    return rel


_REL_TEXT = {"le": "level <= heading_anchors", "lt": "level < heading_anchors", "ge": "level >= heading_anchors", "gt": "level > heading_anchors", "other": "a test that is not an order comparison"}


@rule("C10.R3")
def r3_depth(corpus: Corpus, rep: Report, tier: str):
    rep.rule("C10.R3", "slug computation is dominated by `level <= heading_anchors` (inclusive, as range(1, max_level + 1) in the plugin); the config validator admits depths 0-7")
    g = get_callgraph(corpus)
    n = 0
    for fi, call in _cus_call_sites(corpus):
        n += 1
        rep.saw_function(fi.fq)
        cfg = get_cfg(fi)
        st = cfg.stmt_of(call)
        rels = []
        for t, pol in cfg.guards(st):
            r = _depth_relation(t, pol, fi)
            if r is not None:
                rels.append((r, t))
        k = f"{fi.fq}|depth limit on slug computation"
        site = fi.module.site(call)
        where = fi
        if not rels:
            # one level up: every call site of the enclosing function
            ups = g.callers().get(fi.fq, [])
            allr = []
            for ufi, ucall in ups:
                ucfg = get_cfg(ufi)
                ur = [(r, t) for t, pol in ucfg.guards(ucfg.stmt_of(ucall)) for r in [_depth_relation(t, pol, ufi)] if r is not None]
                allr.append(ur)
            if ups and all(allr):
                rels = [x for ur in allr for x in ur]
                where = ups[0][0]
        if not rels:
            readers = [
                f.fq
                for f in corpus.all_functions()
                if not f.is_lambda and f.module.name.startswith("myst_parser.mdit_to_docutils") and any(isinstance(x, ast.Attribute) and x.attr == "heading_anchors" and isinstance(x.ctx, ast.Load) for x in f.local_nodes())
            ]
            if readers:
                raise Unsupported(f"heading_anchors is read in {readers[0]} but no guard on the slug computation was recognised")
            rep.violation("C10.R3", k, site, "no heading_anchors test dominates the slug computation: every heading gets an anchor, also with heading_anchors = 0")
            continue
        odd = [t for r, t in rels if r == "other"]
        if odd:
            raise Unsupported(f"{where.module.site(odd[0])}: heading_anchors test `{short(odd[0], 50)}` is not a plain order comparison with the level parameter")
        bad = [(r, t) for r, t in rels if r != "le"]
        if bad:
            r, t = bad[0]
            rep.violation(
                "C10.R3",
                k,
                where.module.site(t),
                f"slugs are computed only when {_REL_TEXT[r]} (from `{short(t, 50)}`); the documented depth and the plugin's range(min_level, max_level + 1) are inclusive: level <= heading_anchors",
            )
        else:
            rep.ok("C10.R3", k, site, f"guard `{short(rels[0][1], 50)}` gives level <= heading_anchors")
    _r3_depth_domain(corpus, rep)
    rep.expect_min("C10.R3", 2, "call site of compute_unique_slug; depth domain of the configuration field")


# the property quantifies over anchor depths 0-7 (six markdown levels plus one for a heading-offset; the pinned validator is in_([0..7]))
_DEPTHS = frozenset(range(0, 8))


def _int_domain(m: Module, e: ast.expr) -> frozenset | None:
    """Set of ints denoted by a literal collection or a range(...) of constant-evaluable arguments."""
    if isinstance(e, ast.Call) and dotted(e.func) in ("range", "list", "tuple", "set", "frozenset") and not e.keywords:
        if dotted(e.func) == "range" and 1 <= len(e.args) <= 3:
            try:
                args = [m.eval_const(a) for a in e.args]
            except Unsupported:
                return None
            if all(isinstance(a, int) for a in args):
                return frozenset(range(*args))
            return None
        if len(e.args) == 1:
            return _int_domain(m, e.args[0])
        return None
    try:
        v = m.eval_const(e)
    except Unsupported:
        return None
    if isinstance(v, (list, tuple, set, frozenset)) and all(isinstance(x, int) and not isinstance(x, bool) for x in v):
        return frozenset(v)
    return None


def _r3_depth_domain(corpus: Corpus, rep: Report) -> None:
    ci = corpus.cls("config.main:MdParserConfig")
    m = ci.module
    fld = None
    for st in ci.node.body:
        if isinstance(st, ast.AnnAssign) and isinstance(st.target, ast.Name) and st.target.id == "heading_anchors":
            fld = st
    if fld is None:
        raise Unsupported("MdParserConfig has no field heading_anchors")
    k = f"{ci.fq}.heading_anchors|every documented depth 0-7 is a valid value"
    site = m.site(fld)
    val = None
    if isinstance(fld.value, ast.Call):
        md = kwarg(fld.value, "metadata")
        if isinstance(md, ast.Dict):
            for kk, vv in zip(md.keys, md.values):
                if isinstance(kk, ast.Constant) and kk.value == "validator":
                    val = vv
    if val is None:
        raise Unsupported(f"{site}: validator of heading_anchors not found")
    # in_(DOMAIN), possibly wrapped (optional(in_(...)), and_(instance_of(int), in_(...)))
    doms = []
    for c in ast.walk(val):
        if isinstance(c, ast.Call) and (dotted(c.func) or "").split(".")[-1] == "in_" and len(c.args) == 1:
            d = _int_domain(m, c.args[0])
            if d is None:
                raise Unsupported(f"{m.site(c)}: domain of `{short(c, 50)}` is not a literal collection / constant range")
            doms.append((c, d))
    if not doms:
        raise Unsupported(f"{site}: heading_anchors is not validated by a membership validator (`{short(val, 50)}`); accepted depths not decided")
    c, d = doms[0]
    for c2, d2 in doms[1:]:
        d = d & d2
    missing = sorted(_DEPTHS - d)
    if missing:
        rep.violation(
            "C10.R3",
            k,
            m.site(c),
            f"the validator `{short(val, 60)}` admits {sorted(d)}: depth(s) {missing} of the documented range 0-7 are rejected as invalid configuration "
            "(the setting is then ignored with a warning and no heading of that depth ever gets an anchor)",
        )
    else:
        rep.ok("C10.R3", k, m.site(c), f"admits {sorted(d)}")


# ---------------------------------------------------------------------------
# R4 foreign callable


def _header_exprs(n) -> list[ast.AST]:
    if isinstance(n, (ast.If, ast.While)):
        return [n.test]
    if isinstance(n, ast.For):
        return [n.iter]
    if isinstance(n, ast.With):
        return [i.context_expr for i in n.items]
    if isinstance(n, (ast.Try, ast.FunctionDef, ast.AsyncFunctionDef, ast.ClassDef)):
        return []
    if isinstance(n, ast.AST):
        return [n]
    return []


def _direct_warn_count(exprs: list[ast.AST], heading_slug: bool) -> int:
    c = 0
    for e in exprs:
        for x in ast.walk(e):
            if not isinstance(x, ast.Call):
                continue
            last = (dotted(x.func) or "").split(".")[-1]
            tagged = any(isinstance(a, ast.Attribute) and a.attr == "HEADING_SLUG" for a in list(x.args) + [kw.value for kw in x.keywords])
            if heading_slug and last == "create_warning" and tagged:
                c += 1
            if not heading_slug and last in ("create_warning", "warning", "error", "severe") and not tagged:
                c += 1
    return c


def _package_helpers(corpus: Corpus, fi: FunctionInfo, call: ast.Call) -> list[FunctionInfo]:
    """Package functions a call resolves to (the warning primitives themselves are not helpers)."""
    if (dotted(call.func) or "").split(".")[-1] in ("create_warning", "token_line"):
        return []
    g = get_callgraph(corpus)
    return [h for h in g.flat_targets(g.resolve_call(call, fi)) if not h.is_lambda and h.fq != fi.fq and h.name != "create_warning"]


def _warn_weight(corpus: Corpus, fi: FunctionInfo, n, heading_slug: bool, depth: int = 1) -> int:
    """Warnings issued by CFG node ``n``: direct calls plus helpers that warn on every path the same number of times."""
    exprs = _header_exprs(n)
    c = _direct_warn_count(exprs, heading_slug)
    if depth <= 0:
        return c
    for e in exprs:
        for x in ast.walk(e):
            if isinstance(x, ast.Call):
                for h in _package_helpers(corpus, fi, x):
                    hc = get_cfg(h).counts("ENTRY", [EXIT], lambda m, h=h: _warn_weight(corpus, h, m, heading_slug, depth - 1))
                    got = hc.get(EXIT, {0})
                    if len(got) != 1:
                        raise Unsupported(f"{h.fq}: helper called from the slug handler warns on some paths only ({sorted(got)})")
                    c += next(iter(got))
    return min(c, 2)


def _is_broad(h: ast.ExceptHandler) -> bool:
    if h.type is None:
        return True
    ts = h.type.elts if isinstance(h.type, ast.Tuple) else [h.type]
    return any(dotted(t) in ("Exception", "BaseException", "builtins.Exception", "builtins.BaseException") for t in ts)


@rule("C10.R4")
def r4_foreign_callable(corpus: Corpus, rep: Report, tier: str):
    rep.rule("C10.R4", "configured slug function replaces the default only when set; its call is under `except Exception` -> exactly one HEADING_SLUG warning, no store, no raise; the option is global-only and survives pickling of the Sphinx environment")
    cus = corpus.func(CUS)
    sel = slug_func_selection(corpus)
    # (a) selection orientation
    k = f"{cus.fq}|custom slug function replaces the default"
    site = cus.module.site(sel["sel"])
    ws = sel["when_set"]
    if isinstance(ws, ast.Name) and ws.id == sel["param"]:
        if not sel["calls"]:
            rep.violation("C10.R4", k, site, f"the selected slug function `{sel['called']}` is never called")
        else:
            rep.ok("C10.R4", k, site, f"`{sel['param']}` when set, `{sel['default']}` when None")
    else:
        rep.violation("C10.R4", k, site, f"when heading_slug_func is configured the slug is still computed by `{short(ws, 40)}`: the custom function does not replace the default")
    # the foreign call must not already be handled inside compute_unique_slug in an unknown way
    for c in sel["calls"]:
        p = parent(c)
        while p is not None and p is not cus.node:
            if isinstance(p, ast.Try):
                raise Unsupported(f"{cus.fq}: the slug function is called inside a try statement; handler placement not understood")
            p = parent(p)
    # (b) handler at every call site
    for fi, call in _cus_call_sites(corpus):
        rep.saw_function(fi.fq)
        csite = fi.module.site(call)
        k = f"{fi.fq}|slug function call under a broad handler"
        tr = None
        node: ast.AST = call
        p = parent(call)
        while p is not None and p is not fi.node:
            if isinstance(p, ast.Try) and any(node is s for s in p.body):
                tr = p
                break
            node = p
            p = parent(p)
        if tr is None:
            rep.violation("C10.R4", k, csite, "the user-supplied slug function is called outside any try: its failure aborts the parse instead of producing a warning")
            continue
        broad = [h for h in tr.handlers if _is_broad(h)]
        if not broad:
            rep.violation(
                "C10.R4",
                k,
                csite,
                f"the user-supplied slug function is only guarded by `except {', '.join(unparse(h.type) for h in tr.handlers if h.type is not None)}`: any other exception aborts the parse instead of producing a warning",
            )
            continue
        if len(tr.handlers) != 1 or tr.finalbody:
            raise Unsupported(f"{csite}: several handlers / finally around the slug computation")
        rep.ok("C10.R4", k, csite, f"except {unparse(broad[0].type) if broad[0].type is not None else '<bare>'}")
        h = broad[0]
        cfg = get_cfg(fi)
        start = ("H", h)
        reg = arg_or_kw(call, cus.params.index(uniq_taken_param(corpus)), uniq_taken_param(corpus))
        reg_text = unparse(reg) if reg is not None else None

        def warns(n) -> int:
            return _warn_weight(corpus, fi, n, True)

        def other_warns(n) -> int:
            return _warn_weight(corpus, fi, n, False)

        def stores(n) -> int:
            if isinstance(n, (ast.Assign, ast.AugAssign, ast.AnnAssign)):
                tg = n.targets if isinstance(n, ast.Assign) else [n.target]
                for t in tg:
                    if isinstance(t, ast.Subscript):
                        if reg_text and unparse(t.value) == reg_text:
                            return 1
                        if isinstance(t.slice, ast.Constant) and t.slice.value == "slug":
                            return 1
            for e in _header_exprs(n):
                for x in ast.walk(e):
                    if isinstance(x, ast.Call) and isinstance(x.func, ast.Attribute) and reg_text and unparse(x.func.value) == reg_text and x.func.attr in ("update", "setdefault", "__setitem__"):
                        return 1
            return 0

        k = f"{fi.fq}|slug handler: exactly one HEADING_SLUG warning"
        hsite = fi.module.site(h)
        wc = cfg.counts(start, [EXIT], warns)
        oc = cfg.counts(start, [EXIT], other_warns)
        raises = any(isinstance(x, ast.Raise) for s in h.body for x in ast.walk(s)) or RAISE in cfg.counts(start, [RAISE], lambda n: 0)
        kr = f"{fi.fq}|slug handler: does not raise"
        if raises:
            rep.violation("C10.R4", kr, hsite, "the failure handler (re-)raises: a failing slug function aborts the parse")
        else:
            rep.ok("C10.R4", kr, hsite)
        if EXIT not in wc:
            if raises:
                continue
            raise Unsupported(f"{hsite}: handler never reaches the normal exit")
        helper_calls = [
            x
            for s in h.body
            for x in ast.walk(s)
            if isinstance(x, ast.Call) and (dotted(x.func) or "").startswith("self.") and (dotted(x.func) or "").split(".")[-1] != "create_warning" and not _package_helpers(corpus, fi, x)
        ]
        if wc[EXIT] == {0} and helper_calls:
            raise Unsupported(f"{hsite}: the handler delegates to `{short(helper_calls[0], 40)}`; whether it warns is not decided")
        if wc[EXIT] == {1} and oc.get(EXIT, {0}) == {0}:
            rep.ok("C10.R4", k, hsite)
        elif wc[EXIT] != {1}:
            rep.violation("C10.R4", k, hsite, f"paths through the handler issue {sorted(wc[EXIT])} MystWarnings.HEADING_SLUG warning(s) (2 = two or more); a failing slug function must produce exactly one")
        else:
            rep.violation("C10.R4", k, hsite, "the handler issues a further warning besides the HEADING_SLUG one")
        k = f"{fi.fq}|slug handler: stores no slug"
        sc = cfg.counts(start, [EXIT], stores)
        if sc.get(EXIT, {0}) == {0}:
            rep.ok("C10.R4", k, hsite)
        else:
            rep.violation("C10.R4", k, hsite, "a path through the failure handler still writes a slug record / node['slug']: the failure produces more than a warning")
    _r4_result_is_str(corpus, rep, cus, sel)
    _r4_global_only(corpus, rep)
    _r4_picklable_config(corpus, rep)
    rep.expect_min("C10.R4", 2, "selection orientation and one call site (handler breadth; then warning count, store, raise)")


def _r4_result_is_str(corpus: Corpus, rep: Report, cus: FunctionInfo, sel: dict) -> None:
    """What a user-supplied function returns becomes a key of the slug table and the `slug` attribute: before it is used,
    every path must have established isinstance(result, str) - the other outcome raising inside the guarded call, so that
    it is reported like a function that raises."""
    cfg = get_cfg(cus)
    k = f"{cus.fq}|slug function result is checked to be a string"
    for call in sel["calls"]:
        st = parent(call)
        if not (isinstance(st, ast.Assign) and st.value is call and len(st.targets) == 1 and isinstance(st.targets[0], ast.Name)):
            raise Unsupported(f"{cus.module.site(call)}: result of the slug function is not bound to a name")
        res = st.targets[0].id
        ok_edges = set()
        partial = []
        for n in walk_local(cus.node):
            if not isinstance(n, (ast.If, ast.While)):
                continue
            for pol in (True, False):
                for t, p_ in facts(n.test, pol):
                    if isinstance(t, ast.Call) and dotted(t.func) == "isinstance" and len(t.args) == 2 and isinstance(t.args[0], ast.Name) and t.args[0].id == res:
                        ty = t.args[1]
                        only_str = (isinstance(ty, ast.Name) and ty.id == "str") or (isinstance(ty, ast.Tuple) and bool(ty.elts) and all(isinstance(e, ast.Name) and e.id == "str" for e in ty.elts))
                        if p_ and only_str:
                            ok_edges.add(("T" if pol else "F", n))
                        elif p_:
                            partial.append(t)
        site = cus.module.site(call)
        # '' is a legal result (punctuation-only title): no normal return may depend on the result being truthy
        ke = f"{cus.fq}|an empty result of the slug function is accepted"
        falsy = None
        for r in walk_local(cus.node):
            if not isinstance(r, ast.Return):
                continue
            for t, pol in cfg.guards(r):
                if pol and isinstance(t, ast.Name) and t.id == res:
                    falsy = falsy or t
                if isinstance(t, ast.Compare) and len(t.ops) == 1 and res in _names(t) and any(isinstance(x, ast.Constant) and x.value in ("", 0) for x in ast.walk(t)):
                    falsy = falsy or t
                if pol and isinstance(t, ast.Call) and dotted(t.func) in ("len", "bool") and res in _names(t):
                    falsy = falsy or t
        if falsy is not None:
            rep.violation(
                "C10.R4",
                ke,
                cus.module.site(falsy),
                f"the slug is only returned when `{short(falsy, 40)}` holds: the empty string - the rule's legitimate result for a title of punctuation or emoji only - is treated as a failure of "
                "the slug function (a [myst.heading_slug] warning, no anchor, nothing recorded), while myst-anchors prints the anchor and numbers the next such heading `-1`",
            )
        else:
            rep.ok("C10.R4", ke, site)
        # every path from the call to a normal exit crosses an edge on which isinstance(res, str) holds
        if not cfg.paths_avoiding(st, EXIT, lambda n: n in ok_edges):
            rep.ok("C10.R4", k, site, f"every normal path after `{short(st, 40)}` has passed isinstance({res}, str)")
        else:
            extra = f" (the test `{short(partial[0], 50)}` also lets other types through)" if partial else ""
            rep.violation(
                "C10.R4",
                k,
                site,
                f"`{res}`, the value returned by the configured slug function, reaches the slug table without a test that it is a str{extra}: a function without `return` makes None a "
                "key of the table (ResolveAnchorIds then fails with KeyError: 'slug' for every section without a slug) and other non-strings become anchors, instead of one "
                "[myst.heading_slug] warning per heading",
            )


def _slug_func_field(corpus: Corpus) -> tuple[str, ast.AnnAssign, "ClassInfo"]:
    """Name and declaration of the configuration field whose value is handed to compute_unique_slug."""
    names = set()
    for fi, call in _cus_call_sites(corpus):
        for a in list(call.args) + [kw.value for kw in call.keywords]:
            if isinstance(a, ast.Attribute) and a.attr.endswith("slug_func"):
                names.add(a.attr)
    if len(names) != 1:
        raise Unsupported(f"configuration field of the slug function not identified ({sorted(names)})")
    fld = names.pop()
    ci = corpus.cls("config.main:MdParserConfig")
    for st in ci.node.body:
        if isinstance(st, ast.AnnAssign) and isinstance(st.target, ast.Name) and st.target.id == fld:
            return fld, st, ci
    raise Unsupported(f"MdParserConfig has no field {fld}")


def _field_metadata(st: ast.AnnAssign) -> dict[str, ast.expr]:
    if isinstance(st.value, ast.Call):
        md = kwarg(st.value, "metadata")
        if isinstance(md, ast.Dict):
            return {k.value: v for k, v in zip(md.keys, md.values) if isinstance(k, ast.Constant)}
    return {}


def _stores_config_value(corpus: Corpus, f: FunctionInfo, call: ast.Call, depth: int = 2) -> bool:
    """The call validates / stores a configuration value: setattr or validate_field itself, or a package helper
    (followed through the call graph) that contains such a call."""
    if dotted(call.func) in ("setattr", "validate_field"):
        return True
    if depth <= 0:
        return False
    for h in _package_helpers(corpus, f, call):
        if h.name in ("validate_field",):
            return True
        if h.module.name.startswith("myst_parser.config") and any(isinstance(c, ast.Call) and _stores_config_value(corpus, h, c, depth - 1) for c in walk_local(h.node)):
            return True
    return False


def _global_only_fact(corpus: Corpus, f: FunctionInfo, t: ast.expr, pol: bool, depth: int = 1) -> bool | None:
    """True: (t, pol) implies the field is NOT global-only; False: implies it is; None: unrelated.
    The flag is read as metadata key "global_only", directly or in a package predicate that returns it (or its negation)."""
    if any(isinstance(x, ast.Constant) and x.value == "global_only" for x in ast.walk(t)) or any(isinstance(x, ast.Attribute) and x.attr == "global_only" for x in ast.walk(t)):
        if isinstance(t, ast.Compare) and any(isinstance(o, (ast.IsNot, ast.NotEq)) for o in t.ops) and any(isinstance(x, ast.Constant) and x.value is True for x in ast.walk(t)):
            return pol
        if isinstance(t, ast.Compare) and any(isinstance(x, ast.Constant) and x.value in (False, None) for x in t.comparators) and any(isinstance(o, (ast.Is, ast.Eq)) for o in t.ops):
            return pol
        return not pol
    if isinstance(t, ast.Call) and depth > 0:
        for h in _package_helpers(corpus, f, t):
            rets = [r for r in walk_local(h.node) if isinstance(r, ast.Return) and r.value is not None]
            if len(rets) == 1:
                for t2, p2 in facts(rets[0].value, True):
                    v = _global_only_fact(corpus, h, t2, p2, depth - 1)
                    if v is not None and len(facts(rets[0].value, True)) == 1:
                        # the predicate is true exactly when (t2, p2) holds
                        return v if pol else (not v)
    return None


def _unguarded_stores(corpus: Corpus, f: FunctionInfo, call: ast.Call, inherited: bool, depth: int = 2) -> list[tuple[FunctionInfo, ast.Call]]:
    """setattr / validate_field calls reached through ``call`` that no negative global_only test dominates, neither in
    their own function nor at any call site on the way down from the loop over the front-matter values."""
    cfg = get_cfg(f)
    here = inherited
    for t, pol in cfg.guards(cfg.stmt_of(call)):
        v = _global_only_fact(corpus, f, t, pol)
        if v is True:
            here = True
        # (a test that holds only for global-only fields does not protect the store)
    if dotted(call.func) in ("setattr", "validate_field"):
        return [] if here else [(f, call)]
    if here or depth <= 0:
        return []
    out: list[tuple[FunctionInfo, ast.Call]] = []
    for h in _package_helpers(corpus, f, call):
        if h.name == "validate_field":
            out.append((f, call))
            continue
        for c2 in walk_local(h.node):
            if isinstance(c2, ast.Call) and _stores_config_value(corpus, h, c2, depth - 1):
                out.extend(_unguarded_stores(corpus, h, c2, False, depth - 1))
    return out


def _r4_global_only(corpus: Corpus, rep: Report) -> None:
    """The slug function is imported from a dotted path and called with every heading text: only the global configuration
    may name it, never a document's own front matter (whose anchors myst-anchors and other documents could not predict)."""
    fld, st, ci = _slug_func_field(corpus)
    m = ci.module
    md = _field_metadata(st)
    k = f"{ci.fq}.{fld}|slug function is a global-only option"
    flag = md.get("global_only")
    if isinstance(flag, ast.Constant) and flag.value is True:
        rep.ok("C10.R4", k, m.site(flag))
    else:
        rep.violation(
            "C10.R4",
            k,
            m.site(st),
            f"`{fld}` is not marked global_only: a document can name any importable callable in its own `myst:` front matter (`{fld}: os.system` with the heading `# echo PWNED`); "
            "it is imported and called with every heading text, and the document's anchors no longer match myst-anchors or the '#slug' links written for the configured function",
        )
    mfl = corpus.func("config.main:merge_file_level")
    rep.saw_function(mfl.fq)
    cfg = get_cfg(mfl)
    k = f"{mfl.fq}|file-level merge refuses global_only fields"
    applies = [
        c
        for c in walk_local(mfl.node)
        if isinstance(c, ast.Call) and enclosing_loop(c, mfl) is not None and _stores_config_value(corpus, mfl, c)
    ]
    if not applies:
        raise Unsupported(f"{mfl.fq}: no setattr/validate_field (direct or in a helper) inside the loop over the file-level values")
    unguarded = []
    for c in applies:
        unguarded.extend(_unguarded_stores(corpus, mfl, c, False))
    if unguarded:
        f_, c = unguarded[0]
        rep.violation(
            "C10.R4",
            k,
            f_.module.site(c),
            f"`{short(c, 50)}` is reached for every field name of the front matter without a test of the field's global_only flag: `myst: {{{fld}: os.system}}` in a document is "
            "validated (imported) and stored, so the document chooses the function that computes its own anchors",
        )
    else:
        rep.ok("C10.R4", k, m.site(applies[0]), f"{len(applies)} store/validate call(s) behind `not field.metadata.get('global_only')`")


def _instance_dict_kind(gs: FunctionInfo, e: ast.expr, depth: int = 0) -> str:
    """'live' (the instance's own attribute dict), 'copy' (a new dict made from it) or 'other'."""
    selfn = gs.params[0] if gs.params else "self"

    def is_live(x: ast.expr) -> bool:
        return (isinstance(x, ast.Attribute) and x.attr == "__dict__" and isinstance(x.value, ast.Name) and x.value.id == selfn) or (
            isinstance(x, ast.Call) and dotted(x.func) == "vars" and len(x.args) == 1 and isinstance(x.args[0], ast.Name) and x.args[0].id == selfn
        )

    if is_live(e):
        return "live"
    if isinstance(e, ast.Call):
        d = dotted(e.func) or ""
        if isinstance(e.func, ast.Attribute) and e.func.attr == "copy" and not e.args:
            return "copy"
        if d in ("dict", "copy.copy", "copy.deepcopy", "OrderedDict") or d.endswith(("asdict", "deepcopy")):
            return "copy"
    if isinstance(e, (ast.Dict, ast.DictComp)):
        return "copy"
    if isinstance(e, ast.Name) and depth < 4:
        ds = _assigns_to(gs, e.id)
        kinds_ = {_instance_dict_kind(gs, d.value, depth + 1) for d in ds if getattr(d, "value", None) is not None}
        if len(kinds_) == 1:
            return kinds_.pop()
        if "live" in kinds_:
            return "live"
    return "other"


def _r4_getstate_pure(rep: Report, ci, gs: FunctionInfo, fld: str) -> None:
    """Sphinx pickles the environment in the middle of a build (after reading, in every parallel worker) and goes on using it:
    producing the pickled state must not change the configuration object itself."""
    k = f"{ci.fq}|pickling does not change the configuration in use"
    selfn = gs.params[0] if gs.params else "self"
    live = None
    undecided = None
    for n in walk_local(gs.node):
        target = None
        if isinstance(n, ast.Subscript) and isinstance(n.ctx, (ast.Store, ast.Del)):
            target = n.value
        elif isinstance(n, ast.Call) and isinstance(n.func, ast.Attribute) and n.func.attr in ("pop", "update", "clear", "setdefault", "popitem", "__setitem__"):
            target = n.func.value
        elif isinstance(n, ast.Attribute) and isinstance(n.ctx, (ast.Store, ast.Del)) and isinstance(n.value, ast.Name) and n.value.id == selfn:
            live = live or n
            continue
        elif isinstance(n, ast.Call) and dotted(n.func) in ("setattr", "delattr", "object.__setattr__") and n.args and isinstance(n.args[0], ast.Name) and n.args[0].id == selfn:
            live = live or n
            continue
        if target is None:
            continue
        kind = _instance_dict_kind(gs, target)
        if kind == "live":
            live = live or n
        elif kind == "other":
            undecided = undecided or n
    if live is not None:
        rep.violation(
            "C10.R4",
            k,
            gs.module.site(live),
            f"{gs.qualname} modifies the instance itself (`{short(live, 50)}` acts on the object's own attribute dict, not on a copy): the first pickling of the Sphinx environment "
            f"(after the reading phase / in a parallel worker) silently removes an unpicklable `{fld}` from the configuration that is still in use, so later documents fall back to the default slug function",
        )
    elif undecided is not None:
        raise Unsupported(f"{gs.module.site(undecided)}: object modified in {gs.qualname} is neither the instance dict nor a visible copy of it: {short(undecided, 50)}")
    else:
        rep.ok("C10.R4", k, gs.site(), "only a copy of the instance dict is modified")


def _r4_picklable_config(corpus: Corpus, rep: Report) -> None:
    """Sphinx pickles the environment after reading; a config stored on it must not carry a callable that cannot be
    pickled by reference (a function defined in conf.py), or no custom slug function from conf.py can ever be used."""
    fld, st, ci = _slug_func_field(corpus)
    if "Callable" not in unparse(st.annotation):
        return
    stored = []
    for f in corpus.all_functions():
        if f.is_lambda or not f.module.name.startswith("myst_parser.sphinx_ext"):
            continue
        for n in walk_local(f.node):
            if isinstance(n, ast.Assign) and isinstance(n.value, ast.Call) and f.module.resolve(dotted(n.value.func) or "").endswith("config.main.MdParserConfig"):
                for t in n.targets:
                    if isinstance(t, ast.Attribute) and (dotted(t.value) or "").split(".")[-1] == "env":
                        stored.append((f, n))
    k = f"{ci.fq}|pickled state drops an unpicklable slug function"
    if not stored:
        rep.ok("C10.R4", k, ci.module.site(ci.node), "the configuration object is not stored on the Sphinx environment")
        return
    gs = ci.methods.get("__getstate__") or ci.methods.get("__reduce__") or ci.methods.get("__reduce_ex__")
    handled = False
    if gs is not None:
        for n in walk_local(gs.node):
            if isinstance(n, ast.Subscript) and isinstance(n.slice, ast.Constant) and n.slice.value == fld and isinstance(n.ctx, (ast.Store, ast.Del)):
                handled = True
            if isinstance(n, ast.Call) and isinstance(n.func, ast.Attribute) and n.func.attr == "pop" and n.args and isinstance(n.args[0], ast.Constant) and n.args[0].value == fld:
                handled = True
    f0, n0 = stored[0]
    if handled:
        rep.ok("C10.R4", k, gs.site(), f"{gs.qualname} replaces/removes `{fld}` in the pickled state")
        _r4_getstate_pure(rep, ci, gs, fld)
    else:
        rep.violation(
            "C10.R4",
            k,
            ci.module.site(ci.node),
            f"{f0.qualname} stores the configuration on the Sphinx environment (`{short(n0, 50)}`), which Sphinx pickles after the reading phase, and {ci.name} pickles `{fld}` as is: "
            "a `def myst_heading_slug_func(title)` in conf.py (as the documentation suggests) aborts the build with PicklingError, so a custom slug function defined there can never replace the default",
            [f"{f0.module.site(n0)} {short(n0, 60)}"],
        )


def uniq_taken_param(corpus: Corpus) -> str:
    def build():
        cus = corpus.func(CUS)
        # the parameter that stands on the right of an `in` / `not in` test (or is iterated) in the uniquifier
        hits = set()
        for n in walk_local(cus.node):
            if isinstance(n, ast.Compare) and len(n.ops) == 1 and isinstance(n.ops[0], (ast.In, ast.NotIn)) and isinstance(n.comparators[0], ast.Name) and n.comparators[0].id in cus.params:
                hits.add(n.comparators[0].id)
        if len(hits) != 1:
            raise Unsupported(f"{cus.fq}: cannot tell which parameter is the registry of taken slugs ({sorted(hits)})")
        return hits.pop()

    return corpus.cache("c10-taken", build)


# ---------------------------------------------------------------------------
# R5 record layout


_ID_MAKERS = ("make_id", "fully_normalize_name", "whitespace_normalize_name", "escape2null", "slugify", "default_slugify")


def _recomputed_id(fi: FunctionInfo, e: ast.expr) -> bool:
    def made(x: ast.expr) -> bool:
        return isinstance(x, ast.Call) and (dotted(x.func) or "").split(".")[-1] in _ID_MAKERS

    if made(e):
        return True
    if isinstance(e, ast.Name):
        ds = _assigns_to(fi, e.id)
        return bool(ds) and all(isinstance(d, ast.Assign) and made(d.value) for d in ds)
    return False


def _writer(corpus: Corpus) -> tuple[FunctionInfo, ast.Assign, str, list[str]]:
    cus = corpus.func(CUS)
    taken = uniq_taken_param(corpus)
    out = []
    for fi, call in _cus_call_sites(corpus):
        st0 = parent(call)
        if not (isinstance(st0, ast.Assign) and len(st0.targets) == 1 and isinstance(st0.targets[0], ast.Name)):
            continue
        res = st0.targets[0].id
        for n in walk_local(fi.node):
            if isinstance(n, ast.Assign) and len(n.targets) == 1 and isinstance(n.targets[0], ast.Subscript) and isinstance(n.targets[0].slice, ast.Name) and n.targets[0].slice.id == res:
                out.append((fi, n, _resolve_alias(n.targets[0].value, fi)))
    if len(out) != 1:
        raise Unsupported(f"expected one record store keyed by the computed slug next to compute_unique_slug, found {len(out)}")
    fi, st, reg = out[0]
    if not isinstance(st.value, ast.Tuple):
        raise Unsupported(f"{fi.module.site(st)}: slug record is not a tuple display")
    kinds = []
    for e in st.value.elts:
        kind = "OTHER"
        if any(isinstance(x, ast.Subscript) and isinstance(x.slice, ast.Constant) and x.slice.value == "ids" for x in ast.walk(e)):
            kind = "ID"
        elif isinstance(e, ast.Attribute) and e.attr == "line":
            kind = "LINE"
        elif isinstance(e, ast.Name):
            ds = _assigns_to(fi, e.id)
            if ds and all(isinstance(d, ast.Assign) and isinstance(d.value, ast.Call) and (dotted(d.value.func) or "").split(".")[-1] in ("clean_astext", "astext") for d in ds):
                kind = "TITLE"
        elif isinstance(e, ast.Call) and (dotted(e.func) or "").split(".")[-1] in ("clean_astext", "astext"):
            kind = "TITLE"
        if kind == "OTHER" and _recomputed_id(fi, e):
            kind = "ID*"  # an id computed from the name instead of read from the node's registered ids
        kinds.append(kind)
    if "ID" not in kinds and kinds.count("ID*") == 1 and kinds.count("TITLE") == 1:
        return fi, st, reg, kinds
    kinds = ["OTHER" if k_ == "ID*" else k_ for k_ in kinds]
    if kinds.count("ID") != 1 or kinds.count("TITLE") != 1:
        raise Unsupported(f"{fi.module.site(st)}: cannot classify the slug record {short(st.value, 60)} (kinds {kinds})")
    return fi, st, reg, kinds


def _exports(corpus: Corpus, wfi: FunctionInfo, reg: str) -> list[tuple[str, str, str]]:
    """(channel kind, name, site) under which the registry object is published."""
    out = []
    cls = wfi.cls
    for f in corpus.all_functions():
        if f.is_lambda or f.cls is None or cls is None or f.cls.fq != cls.fq:
            continue
        for n in walk_local(f.node):
            if isinstance(n, ast.Assign) and unparse(n.value) == reg:
                for t in n.targets:
                    if isinstance(t, ast.Name):
                        continue  # local alias, not a publication
                    if isinstance(t, ast.Attribute):
                        out.append(("attr", t.attr, f.module.site(n)))
                    elif isinstance(t, ast.Subscript) and isinstance(t.slice, ast.Constant) and isinstance(t.slice.value, str):
                        out.append(("key", t.slice.value, f.module.site(n)))
                    elif isinstance(t, ast.Subscript) and not isinstance(t.slice, ast.Constant) and isinstance(t.value, ast.Attribute):
                        # <obj>.<attr>[<docname>] = registry: a per-document map held in an attribute
                        out.append(("attrmap", t.value.attr, f.module.site(n)))
                    else:
                        raise Unsupported(f"{f.module.site(n)}: slug registry published in a form that is not understood")
    return out


def _selected(n: ast.AST) -> ast.AST | None:
    """`n[<expr>]` / `n.get(<expr>, ...)` with a non-literal key: one entry of a per-document map."""
    q = parent(n)
    if isinstance(q, ast.Subscript) and q.value is n and not isinstance(q.slice, ast.Constant) and isinstance(q.ctx, ast.Load):
        return q
    if isinstance(q, ast.Attribute) and q.value is n and q.attr == "get":
        c = parent(q)
        if isinstance(c, ast.Call) and c.func is q and c.args and not isinstance(c.args[0], ast.Constant):
            return c
    return None


def _reader_exprs(f: FunctionInfo, kind: str, name: str, map_names: frozenset = frozenset()) -> list[ast.AST]:
    out = []
    for n in f.local_nodes():
        if kind in ("attr", "attrmap"):
            hit = (isinstance(n, ast.Call) and dotted(n.func) == "getattr" and len(n.args) >= 2 and isinstance(n.args[1], ast.Constant) and n.args[1].value == name) or (
                isinstance(n, ast.Attribute) and n.attr == name and isinstance(n.ctx, ast.Load)
            )
            if not hit:
                continue
            sel = _selected(n)
            if kind == "attr" and not (name in map_names and sel is not None):
                out.append(n)
            elif kind == "attrmap" and sel is not None:
                out.append(sel)
        else:
            if isinstance(n, ast.Call) and isinstance(n.func, ast.Attribute) and n.func.attr == "get" and n.args and isinstance(n.args[0], ast.Constant) and n.args[0].value == name:
                out.append(n)
            elif isinstance(n, ast.Subscript) and isinstance(n.slice, ast.Constant) and n.slice.value == name and isinstance(n.ctx, ast.Load):
                out.append(n)
    return out


def _local_sink_names(f: FunctionInfo, kind: str) -> set[str]:
    out = set()
    for n in f.local_nodes():
        if kind == "id":
            if isinstance(n, ast.Assign) and isinstance(n.value, ast.Name):
                for t in n.targets:
                    if isinstance(t, ast.Subscript) and isinstance(t.slice, ast.Constant) and t.slice.value in ("refid", "ids", "reftargetid"):
                        out.add(n.value.id)
            if isinstance(n, ast.Call) and (dotted(n.func) or "").split(".")[-1] == "make_refnode":
                a = arg_or_kw(n, 3, "targetid")
                if isinstance(a, ast.Name):
                    out.add(a.id)
            if isinstance(n, ast.Call):
                for kw in n.keywords:
                    if kw.arg in ("refid", "targetid", "reftargetid") and isinstance(kw.value, ast.Name):
                        out.add(kw.value.id)
        else:
            if isinstance(n, ast.Call) and (dotted(n.func) or "").split(".")[-1] in ("inline", "Text", "literal", "emphasis", "strong"):
                for a in n.args:
                    if isinstance(a, ast.Name):
                        out.add(a.id)
    return out


def _sink_names(corpus: Corpus, f: FunctionInfo, kind: str, depth: int = 2, _seen: frozenset = frozenset()) -> set[str]:
    """Local names of ``f`` that reach an id / text sink, also through package helpers they are passed to."""
    out = _local_sink_names(f, kind)
    if depth > 0 and not f.is_lambda:
        g = get_callgraph(corpus)
        for call, targets in g.callees(f):
            for h in g.flat_targets(targets):
                if h.is_lambda or h.fq == f.fq or h.fq in _seen:
                    continue
                hs = _alias_closure(_sink_names(corpus, h, kind, depth - 1, _seen | {f.fq}), h)
                if not hs:
                    continue
                shift = 1 if (h.cls is not None and h.params and h.params[0] in ("self", "cls") and isinstance(call.func, ast.Attribute)) else 0
                for i, a in enumerate(call.args):
                    if isinstance(a, ast.Name) and i + shift < len(h.params) and h.params[i + shift] in hs:
                        out.add(a.id)
                for kw in call.keywords:
                    if kw.arg in hs and isinstance(kw.value, ast.Name):
                        out.add(kw.value.id)
    return out


def _id_sink_names(f: FunctionInfo, corpus: Corpus | None = None) -> set[str]:
    return _sink_names(corpus, f, "id") if corpus is not None else _local_sink_names(f, "id")


def _text_sink_names(f: FunctionInfo, corpus: Corpus | None = None) -> set[str]:
    return _sink_names(corpus, f, "text") if corpus is not None else _local_sink_names(f, "text")


@rule("C10.R5")
def r5_record_layout(corpus: Corpus, rep: Report, tier: str):
    rep.rule("C10.R5", "slug record (LINE, ID, TITLE): every reader of the exported registry sends the ID position to refid/targetid and the TITLE position to text, and searches the table under the link fragment as written")
    wfi, wst, reg, kinds = _writer(corpus)
    rep.saw_function(wfi.fq)
    kw_ = f"{wfi.fq}|record id is the registered id of the heading's own node"
    if "ID*" in kinds:
        p_id = kinds.index("ID*")
        bad_e = wst.value.elts[p_id]
        rep.violation(
            "C10.R5",
            kw_,
            wfi.module.site(bad_e),
            f"the id stored in the slug record is `{short(bad_e, 50)}`, recomputed from the heading's name, not the id docutils registered for the node: for the second of two "
            "equal titles docutils registers `x-1` (and `section-1`-style ids for names without ASCII letters) while the recomputed id is `x`, so '#x-1' lands on the first heading "
            "or on no element at all",
        )
        kinds = ["ID" if k_ == "ID*" else k_ for k_ in kinds]
    else:
        p_id = kinds.index("ID")
        rep.ok("C10.R5", kw_, wfi.module.site(wst.value.elts[p_id]), f"`{short(wst.value.elts[p_id], 40)}`")
    p_title = kinds.index("TITLE")
    rep.listed("C10.R5", f"{wfi.fq}|writer layout", wfi.module.site(wst), f"{short(wst, 80)} -> {kinds}")
    exports = _exports(corpus, wfi, reg)
    if not exports:
        raise Unsupported(f"the slug registry `{reg}` is never published (document attribute / env metadata)")
    n_readers = 0
    for kind, name, esite in exports:
        found = 0
        for f in corpus.all_functions():
            if f.is_lambda or (f.cls is not None and wfi.cls is not None and f.cls.fq == wfi.cls.fq):
                continue
            for r in _reader_exprs(f, kind, name, frozenset(n_ for k_, n_, _ in exports if k_ == "attrmap")):
                found += 1
                n_readers += 1
                rep.saw_function(f.fq)
                _check_reader(f, r, name, kinds, p_id, p_title, rep, corpus)
                _check_lookup_keys(f, r, name, rep, corpus)
        if not found:
            rep.error("C10.R5", f"registry published as {kind} `{name}` ({esite}) has no reader in the package")
    _r5_fragment_writers(corpus, rep)
    rep.expect_min("C10.R5", 2, "readers of document.myst_slugs and env.metadata[...]['myst_slugs']")


def _lossy_call(corpus: Corpus | None, f: FunctionInfo, e: ast.expr):
    for src in _key_sources(corpus, f, e):
        for c in ast.walk(src):
            if isinstance(c, ast.Call):
                last = (dotted(c.func) or (c.func.attr if isinstance(c.func, ast.Attribute) else "")).split(".")[-1]
                if last in _LOSSY_KEY_MAPS:
                    return c, last
    return None


def _r5_fragment_writers(corpus: Corpus, rep: Report) -> None:
    """The '#fragment' that the resolver looks up is written by the renderer of id links (`id_link` + `refuri`): it must
    reach the resolver as written, too - a many-to-one mapping there makes case-preserving custom slugs unreachable."""
    n_w = 0
    for f in corpus.all_functions():
        if f.is_lambda or not f.module.name.startswith("myst_parser.mdit_to_docutils"):
            continue
        marks = [
            n
            for n in f.local_nodes()
            if isinstance(n, ast.Assign) and any(isinstance(t, ast.Subscript) and isinstance(t.slice, ast.Constant) and t.slice.value == "id_link" for t in n.targets)
        ]
        kws = [c for c in f.local_nodes() if isinstance(c, ast.Call) and kwarg(c, "id_link") is not None and kwarg(c, "refuri") is not None]
        frags: list[ast.expr] = [kwarg(c, "refuri") for c in kws]
        for mk in marks:
            recv = unparse(next(t for t in mk.targets if isinstance(t, ast.Subscript)).value)
            for n in f.local_nodes():
                if isinstance(n, ast.Assign):
                    for t in n.targets:
                        if isinstance(t, ast.Subscript) and isinstance(t.slice, ast.Constant) and t.slice.value == "refuri" and unparse(t.value) == recv:
                            frags.append(n.value)
        for e in frags:
            n_w += 1
            k = f"{f.fq}|fragment of an id link is stored as written"
            hit = _lossy_call(corpus, f, e)
            if hit is not None:
                c, last = hit
                rep.violation(
                    "C10.R5",
                    k,
                    f.module.site(c),
                    f"the '#fragment' of an id link is stored as `{short(e, 60)}` ({_LOSSY_KEY_MAPS[last]}): the resolver then searches the heading-slug table, whose keys are the slugs "
                    "exactly as the slug function returned them, under the mapped text, so an anchor of a case-preserving custom heading_slug_func ('Plain-title') is unreachable through '#Plain-title'",
                )
            else:
                rep.ok("C10.R5", k, f.module.site(e), short(e, 50))
    if not n_w:
        raise Unsupported("no writer of id links (`id_link` + `refuri`) found in mdit_to_docutils")


# functions/methods that map different strings to one (name normalisers, id makers, case folding): a slug that is not a
# fixed point of them - any case-preserving custom slug function produces such slugs - cannot be found under the mapped key
_LOSSY_KEY_MAPS = {
    "fully_normalize_name": "docutils lower-cases and collapses white space",
    "whitespace_normalize_name": "docutils collapses white space",
    "make_id": "docutils reduces the string to an ASCII identifier",
    "lower": "case folding",
    "casefold": "case folding",
    "upper": "case folding",
    "title": "case mapping",
    "capitalize": "case mapping",
    "normalize": "Unicode normalisation",
    "slugify": "slugging the link fragment again",
    "default_slugify": "slugging the link fragment again",
}


def _key_sources(corpus: Corpus | None, f: FunctionInfo, e: ast.expr, depth: int = 3) -> list[ast.expr]:
    """The expressions a lookup key is computed from: plain names are replaced by their definitions in ``f`` (closure
    scopes included), calls of package helpers by what the helper returns."""
    if depth <= 0:
        return [e]
    if isinstance(e, ast.Name):
        scope: FunctionInfo | None = f
        while scope is not None and not scope.is_lambda:
            ds = [d for d in _assigns_to(scope, e.id) if getattr(d, "value", None) is not None and not isinstance(d, ast.AugAssign)]
            if ds:
                out: list[ast.expr] = []
                for d in ds:
                    out.extend(_key_sources(corpus, scope, d.value, depth - 1))
                return out
            if e.id in scope.params:
                return [e]
            scope = scope.parent_func
        return [e]
    if isinstance(e, ast.Call) and corpus is not None:
        hs = _package_helpers(corpus, f, e)
        if hs:
            out = []
            for h in hs:
                for r in walk_local(h.node):
                    if isinstance(r, ast.Return) and r.value is not None:
                        out.extend(_key_sources(corpus, h, r.value, depth - 1))
            return out or [e]
    return [e]


def _check_lookup_keys(f: FunctionInfo, r: ast.AST, name: str, rep: Report, corpus: Corpus | None) -> None:
    """The writer records each slug under the string the slug function returned; a reader must look the link fragment up
    as written, not under a many-to-one mapping of it."""
    var = _reader_var(r)
    if var is None:
        return  # R5's reader check reports it
    keys: dict[str, ast.expr] = {}
    for n in f.local_nodes():
        if not (isinstance(n, ast.Name) and n.id == var and isinstance(n.ctx, ast.Load)):
            continue
        q = parent(n)
        if isinstance(q, ast.Subscript) and q.value is n:
            keys.setdefault(unparse(q.slice), q.slice)
        elif isinstance(q, ast.Compare) and len(q.ops) == 1 and isinstance(q.ops[0], (ast.In, ast.NotIn)) and q.comparators[0] is n:
            keys.setdefault(unparse(q.left), q.left)
        elif isinstance(q, ast.Attribute) and q.attr == "get" and isinstance(parent(q), ast.Call) and parent(q).func is q and parent(q).args:
            keys.setdefault(unparse(parent(q).args[0]), parent(q).args[0])
    for text, kexpr in sorted(keys.items()):
        k = f"{f.fq}|{name} looked up under the link fragment as written|{text}"
        lossy = None
        for src in _key_sources(corpus, f, kexpr):
            for c in ast.walk(src):
                if isinstance(c, ast.Call):
                    last = (dotted(c.func) or (c.func.attr if isinstance(c.func, ast.Attribute) else "")).split(".")[-1]
                    if last in _LOSSY_KEY_MAPS:
                        lossy = (c, last)
        if lossy is not None:
            c, last = lossy
            rep.violation(
                "C10.R5",
                k,
                f.module.site(c),
                f"the slug table is searched under `{short(c, 60)}` ({_LOSSY_KEY_MAPS[last]}), but slugs are recorded exactly as the slug function returned them: "
                "an anchor produced by a custom heading_slug_func that keeps case or white space (e.g. 'Plain-title') no longer resolves through '#Plain-title'",
                [f"{f.module.site(kexpr)} key `{text}`", f"{f.module.site(c)} {short(c, 60)}"],
            )
        else:
            rep.ok("C10.R5", k, f.module.site(kexpr), "no case-folding / name-normalising call between the link fragment and the lookup")


def _reader_var(r: ast.AST) -> str | None:
    """Local name the table read by expression ``r`` is bound to (through `<r> or {}`)."""
    st = parent(r)
    while isinstance(st, ast.BoolOp) and isinstance(st.op, ast.Or) and st.values[0] is r and all(isinstance(v, (ast.Dict, ast.Call)) and not getattr(v, "keys", None) and not getattr(v, "args", None) for v in st.values[1:]):
        r, st = st, parent(st)
    if isinstance(st, ast.AnnAssign) and st.value is r and isinstance(st.target, ast.Name):
        return st.target.id
    if isinstance(st, ast.Assign) and st.value is r and len(st.targets) == 1 and isinstance(st.targets[0], ast.Name):
        return st.targets[0].id
    return None


_ID_KEYS = ("refid", "ids", "reftargetid")
_TEXT_CTORS = ("inline", "Text", "literal", "emphasis", "strong")


def _direct_sink(node: ast.AST) -> str | None:
    """'id' / 'text' when the expression ``node`` itself stands in a sink position."""
    q = parent(node)
    if isinstance(q, ast.Assign) and q.value is node:
        if any(isinstance(t, ast.Subscript) and isinstance(t.slice, ast.Constant) and t.slice.value in _ID_KEYS for t in q.targets):
            return "id"
    if isinstance(q, ast.keyword) and q.value is node and q.arg in ("refid", "targetid", "reftargetid"):
        return "id"
    if isinstance(q, ast.Call) and node in q.args:
        last = (dotted(q.func) or "").split(".")[-1]
        if last == "make_refnode" and q.args.index(node) == 3:
            return "id"
        if last in _TEXT_CTORS:
            return "text"
    return None


def _check_reader(f: FunctionInfo, r: ast.AST, name: str, kinds: list[str], p_id: int, p_title: int, rep: Report, corpus: Corpus | None = None) -> None:
    site = f.module.site(r)
    var = _reader_var(r)
    if var is None:
        raise Unsupported(f"{site}: reader of `{name}` is not bound to a local name")
    idn, txn = _alias_closure(_id_sink_names(f, corpus), f), _alias_closure(_text_sink_names(f, corpus), f)
    used = {n.id for n in f.local_nodes() if isinstance(n, ast.Name) and isinstance(n.ctx, ast.Load)}
    # groups: (site node, label, {position: (use kinds, text)}, full arity or None)
    groups: list[tuple[ast.AST, str, dict[int, tuple[set[str], str]], int | None]] = []

    # records written back into the table (`table[k] = (a, b, c)`): a field may be handed on at its own position
    restores: dict[str, set[int]] = {}
    for n in f.local_nodes():
        if isinstance(n, ast.Assign) and isinstance(n.value, ast.Tuple) and any(isinstance(t, ast.Subscript) and isinstance(t.value, ast.Name) and t.value.id == var for t in n.targets):
            for j, e in enumerate(n.value.elts):
                if isinstance(e, ast.Name):
                    restores.setdefault(e.id, set()).add(j)

    def name_uses(nm: str) -> set[str]:
        if nm == "_" or nm not in used:
            return {"unused"}
        u = set()
        if nm in idn:
            u.add("id")
        if nm in txn:
            u.add("text")
        for j in restores.get(nm, ()):
            u.add(f"restore:{j}")
        return u or {"unknown"}

    def unpack(target: ast.expr, where: ast.AST, label: str) -> None:
        if not (isinstance(target, ast.Tuple) and all(isinstance(e, ast.Name) for e in target.elts)):
            raise Unsupported(f"{f.module.site(where)}: unpack target of a slug record not understood: {short(target, 40)}")
        groups.append((where, label, {i: (name_uses(e.id), f"`{e.id}`") for i, e in enumerate(target.elts)}, len(target.elts)))

    def positional(node: ast.Subscript, label: str) -> None:
        i = node.slice.value
        if i < 0:
            i += len(kinds)
        q = parent(node)
        d = _direct_sink(node)
        if d is not None:
            groups.append((node, label, {i: ({d}, f"`{short(node, 40)}`")}, None))
        elif isinstance(q, ast.Assign) and q.value is node and len(q.targets) == 1 and isinstance(q.targets[0], ast.Name):
            groups.append((node, label, {i: (name_uses(q.targets[0].id), f"`{q.targets[0].id}`")}, None))
        elif isinstance(q, (ast.Compare, ast.If, ast.While, ast.BoolOp, ast.UnaryOp, ast.IfExp)) and not (isinstance(q, ast.IfExp) and q.test is not node):
            return
        else:
            raise Unsupported(f"{f.module.site(node)}: use of field {i} of a slug record not understood: {short(q, 50)}")

    def follow(rec: str, label: str) -> None:
        n_use = 0
        for n in f.local_nodes():
            if isinstance(n, ast.Name) and n.id == rec and isinstance(n.ctx, ast.Load):
                q = parent(n)
                if isinstance(q, ast.Assign) and q.value is n and len(q.targets) == 1 and isinstance(q.targets[0], ast.Tuple):
                    unpack(q.targets[0], q, label)
                    n_use += 1
                elif isinstance(q, ast.Subscript) and q.value is n and isinstance(q.slice, ast.Constant) and isinstance(q.slice.value, int):
                    positional(q, label)
                    n_use += 1
                elif isinstance(q, (ast.Compare, ast.If, ast.While, ast.BoolOp, ast.UnaryOp)) or (isinstance(q, ast.IfExp) and q.test is n):
                    continue
                else:
                    raise Unsupported(f"{f.module.site(n)}: use of the slug record `{rec}` not understood: {short(q, 50)}")
        if not n_use:
            raise Unsupported(f"{site}: record `{rec}` is taken out of `{var}` but none of its fields is used")

    def record(expr: ast.AST) -> None:
        q = parent(expr)
        label = short(expr, 40)
        if isinstance(expr, ast.Subscript) and isinstance(expr.ctx, ast.Store):
            # a record written back by a reader (e.g. a refreshed title): same arity, title at the title position
            if not (isinstance(q, ast.Assign) and isinstance(q.value, ast.Tuple)):
                raise Unsupported(f"{f.module.site(expr)}: write into the slug table not understood: {short(q, 50)}")
            elts = q.value.elts
            kq = f"{f.fq}|record written back into {name} {label}"
            if len(elts) != len(kinds):
                rep.violation("C10.R5", kq, f.module.site(q), f"a record of {len(elts)} fields is written back, the writer stores {len(kinds)} ({kinds})")
                return
            problems = []
            for j, e in enumerate(elts):
                fresh_title = (isinstance(e, ast.Call) and (dotted(e.func) or "").split(".")[-1] in ("clean_astext", "astext")) or (
                    isinstance(e, ast.Name) and _assigns_to(f, e.id) and all(isinstance(d, ast.Assign) and isinstance(d.value, ast.Call) and (dotted(d.value.func) or "").split(".")[-1] in ("clean_astext", "astext") for d in _assigns_to(f, e.id))
                )
                if fresh_title:
                    if j != p_title:
                        problems.append(f"a title text is written to position {j} ({kinds[j]} in the writer)")
                elif isinstance(e, ast.Name) and e.id in restores:
                    continue  # judged where the name was unpacked (must come from the same position)
                else:
                    raise Unsupported(f"{f.module.site(e)}: field {j} of the record written back not understood: {short(e, 40)}")
            if problems:
                rep.violation("C10.R5", kq, f.module.site(q), "; ".join(problems))
            else:
                rep.ok("C10.R5", kq, f.module.site(q), short(q.value, 60))
            return
        if isinstance(q, ast.Assign) and q.value is expr and len(q.targets) == 1:
            t = q.targets[0]
            if isinstance(t, ast.Tuple):
                unpack(t, expr, label)
            elif isinstance(t, ast.Name):
                follow(t.id, label)
            else:
                raise Unsupported(f"{f.module.site(expr)}: slug record stored in {short(t, 30)}")
        elif isinstance(q, ast.Subscript) and q.value is expr and isinstance(q.slice, ast.Constant) and isinstance(q.slice.value, int):
            positional(q, label)
        elif isinstance(q, ast.NamedExpr) and q.value is expr and isinstance(q.target, ast.Name):
            follow(q.target.id, label)
        else:
            raise Unsupported(f"{f.module.site(expr)}: slug record used without unpacking: {short(q, 50)}")

    def iterated(call: ast.Call, method: str) -> None:
        q = parent(call)
        if isinstance(q, (ast.For, ast.comprehension)) and q.iter is call:
            t = q.target
            label = short(call, 40)
            if method == "items":
                if not (isinstance(t, ast.Tuple) and len(t.elts) == 2):
                    raise Unsupported(f"{f.module.site(call)}: loop target over .items() not understood")
                t = t.elts[1]
            if isinstance(t, ast.Tuple):
                unpack(t, call, label)
            elif isinstance(t, ast.Name):
                follow(t.id, label)
            else:
                raise Unsupported(f"{f.module.site(call)}: loop target not understood")
        else:
            raise Unsupported(f"{f.module.site(call)}: `{short(call, 40)}` is not iterated directly")

    for n in f.local_nodes():
        if not (isinstance(n, ast.Name) and n.id == var and isinstance(n.ctx, ast.Load)):
            continue
        q = parent(n)
        if isinstance(q, ast.Subscript) and q.value is n:
            record(q)
        elif isinstance(q, ast.Attribute) and q.value is n and isinstance(parent(q), ast.Call) and parent(q).func is q:
            c = parent(q)
            if q.attr == "get" and 1 <= len(c.args) <= 2:
                record(c)
            elif q.attr in ("items", "values") and not c.args:
                iterated(c, q.attr)
            elif q.attr == "keys" and not c.args:
                continue
            else:
                raise Unsupported(f"{f.module.site(n)}: method `{q.attr}` on the slug table not understood")
        elif isinstance(q, ast.Compare) or isinstance(q, (ast.If, ast.While, ast.BoolOp, ast.UnaryOp)) or (isinstance(q, ast.IfExp) and q.test is n):
            continue  # membership / None / emptiness tests do not read a record
        elif isinstance(q, ast.Call) and dotted(q.func) in ("len", "bool", "list", "sorted", "set") and n in q.args:
            continue  # keys only
        elif isinstance(q, (ast.For, ast.comprehension)) and q.iter is n:
            continue  # keys only
        else:
            raise Unsupported(f"{f.module.site(n)}: use of the slug table `{var}` not understood: {short(q, 50)}")
    if not groups:
        raise Unsupported(f"{site}: `{var}` is read from `{name}` but no record field is ever used")
    for where, label, pos, arity in groups:
        asite = f.module.site(where)
        k = f"{f.fq}|unpack of {name} record {label}" + ("" if arity is not None else f" field {sorted(pos)[0]}")
        if arity is not None and arity != len(kinds):
            rep.violation("C10.R5", k, asite, f"reader unpacks {arity} fields, the writer stores {len(kinds)} ({kinds})")
            continue
        problems, undecided = [], []
        for i, (uses, text) in sorted(pos.items()):
            if i >= len(kinds):
                problems.append(f"field {i} is read, the writer stores only {len(kinds)} fields")
                continue
            if "id" in uses and i != p_id:
                problems.append(f"position {i} ({kinds[i]} in the writer) goes to {text}, which is used as the reference id")
            if "text" in uses and i != p_title:
                problems.append(f"position {i} ({kinds[i]} in the writer) goes to {text}, which is used as the link text")
            for u_ in uses:
                if u_.startswith("restore:") and int(u_[8:]) != i:
                    problems.append(f"position {i} ({kinds[i]} in the writer) goes to {text}, which is written back at position {u_[8:]}")
            handed_on = any(u_ == f"restore:{i}" for u_ in uses)
            if i == p_id and "id" not in uses:
                if uses == {"unused"}:
                    if arity is not None:
                        problems.append(f"position {p_id} (the section id in the writer) is discarded: the reference cannot point at the heading")
                elif "text" not in uses and not handed_on:
                    undecided.append(f"position {p_id} (the section id) goes to {text}, whose use is not a recognised id sink (refid / make_refnode targetid)")
            if i == p_title and uses == {"unknown"}:
                undecided.append(f"position {p_title} (the title) goes to {text}, whose use is not a recognised text sink")
        if problems:
            rep.violation("C10.R5", k, asite, "; ".join(problems))
        elif undecided:
            raise Unsupported(f"{asite}: {'; '.join(undecided)}")
        else:
            rep.ok("C10.R5", k, asite, ", ".join(f"{i}:{kinds[i]}->{t}" for i, (u, t) in sorted(pos.items())))


# ---------------------------------------------------------------------------
# R6 what may pre-empt the slug lookup


def _stores_refid(stmts: list[ast.stmt], f: FunctionInfo | None = None, corpus: Corpus | None = None, depth: int = 1) -> bool:
    """A `[...]["refid"] = ...` store in the statements, or in a package helper they call."""
    for st in stmts:
        for n in ast.walk(st):
            if isinstance(n, ast.Assign) and any(isinstance(t, ast.Subscript) and isinstance(t.slice, ast.Constant) and t.slice.value == "refid" for t in n.targets):
                return True
            if isinstance(n, ast.Call) and corpus is not None and f is not None and depth > 0:
                for h in _package_helpers(corpus, f, n):
                    if _stores_refid(h.node.body, h, corpus, depth - 1):
                        return True
    return False


def _membership_table(test: ast.expr) -> str | None:
    """T when ``test`` holding implies `<key> in T` for a local name T."""
    for t, pol in facts(test, True):
        if isinstance(t, ast.Compare) and len(t.ops) == 1 and isinstance(t.comparators[0], ast.Name):
            if (isinstance(t.ops[0], ast.In) and pol) or (isinstance(t.ops[0], ast.NotIn) and not pol):
                return t.comparators[0].id
    return None


def _is_nametypes(e: ast.AST) -> bool:
    return isinstance(e, ast.Attribute) and e.attr == "nametypes"


def _explicit_only(f: FunctionInfo, store: ast.AST, table: str, slug_var: str | None = None) -> tuple[str, str]:
    """('ok'|'bad', reason) for one population site of ``table``; Unsupported when the source is not docutils' name registry."""
    cfg = get_cfg(f)
    # an entry computed from a record of the heading-slug table is, by construction, not an explicit target
    if slug_var is not None and isinstance(store, ast.Assign):
        from_slugs = {slug_var}
        st_store = cfg.stmt_of(store)
        for n in f.local_nodes():
            if isinstance(n, ast.Assign) and n is not store and any(isinstance(x, ast.Subscript) and isinstance(x.value, ast.Name) and x.value.id == slug_var for x in ast.walk(n.value)):
                # only a definition that every path to the store has executed (names are re-used between branches)
                if cfg.dominates(cfg.stmt_of(n), st_store):
                    for t in n.targets:
                        from_slugs |= {x.id for x in ast.walk(t) if isinstance(x, ast.Name) and x.id != "_"}
        used = _names(store.value) & from_slugs
        if used:
            keyx = next((t.slice for t in store.targets if isinstance(t, ast.Subscript)), None)
            return (
                "bad",
                f"`{short(store, 60)}` enters a heading-slug hit ({', '.join(sorted(used))} come from `{slug_var}`) under the key `{short(keyx, 30) if keyx is not None else '?'}`: "
                "from then on that key is answered from the pre-empting table, also for a link whose literal text is the slug of a different heading",
            )
    loop = None
    p = parent(store)
    while p is not None and p is not f.node:
        if isinstance(p, ast.For):
            loop = p
            break
        p = parent(p)
    if loop is None:
        raise Unsupported(f"{f.module.site(store)}: `{table}` is filled outside a loop over the document's names")
    it = loop.iter
    flag = None  # expression whose truth means "explicit"
    if isinstance(it, ast.Call) and isinstance(it.func, ast.Attribute) and it.func.attr == "items" and _is_nametypes(it.func.value):
        if not (isinstance(loop.target, ast.Tuple) and len(loop.target.elts) == 2 and isinstance(loop.target.elts[1], ast.Name)):
            raise Unsupported(f"{f.module.site(loop)}: loop target over nametypes.items() not understood")
        flag = loop.target.elts[1].id
    elif (
        _is_nametypes(it)
        or (isinstance(it, ast.Attribute) and it.attr == "nameids")
        or (
            isinstance(it, ast.Call)
            and isinstance(it.func, ast.Attribute)
            and it.func.attr in ("keys", "items")
            and not it.args
            and isinstance(it.func.value, ast.Attribute)
            and it.func.value.attr in ("nametypes", "nameids")
        )
    ):
        flag = None  # the loop does not bind docutils' explicit flag: a `nametypes[name]` guard is needed
    else:
        raise Unsupported(f"{f.module.site(loop)}: `{table}` is filled from `{short(it, 40)}`, not from the document's name registry")
    st = cfg.stmt_of(store)
    for t, pol in cfg.guards(st):
        if flag is not None and isinstance(t, ast.Name) and t.id == flag:
            return ("ok", f"guarded by `{flag}`") if pol else ("bad", f"entries are added only when `{flag}` is false: implicit names only")
        if isinstance(t, ast.Subscript) and _is_nametypes(t.value):
            return ("ok", f"guarded by `{short(t, 40)}`") if pol else ("bad", f"entries are added only when `{short(t, 40)}` is false")
        if flag is not None and flag in _names(t):
            raise Unsupported(f"{f.module.site(t)}: test on the explicit flag not understood: {short(t, 40)}")
    return ("bad", f"every name in `{short(it, 40)}` is entered, whether docutils marks it explicit or not")


def _table_fills(corpus: Corpus, f: FunctionInfo, table: str, depth: int = 2) -> list[tuple[FunctionInfo, ast.Assign, str]]:
    """(function, `T[...] = ...` statement, T) for every place the local table is filled: in ``f`` itself, or in the
    package helper whose returned dict it is bound to."""
    out = [
        (f, x, table)
        for x in f.local_nodes()
        if isinstance(x, ast.Assign) and any(isinstance(t, ast.Subscript) and isinstance(t.value, ast.Name) and t.value.id == table for t in x.targets)
    ]
    if out or depth <= 0:
        return out
    ds = _assigns_to(f, table)
    if len(ds) == 1 and isinstance(ds[0], (ast.Assign, ast.AnnAssign)) and isinstance(ds[0].value, ast.Call):
        for h in _package_helpers(corpus, f, ds[0].value):
            rets = [r for r in walk_local(h.node) if isinstance(r, ast.Return)]
            names = {r.value.id for r in rets if isinstance(r.value, ast.Name)}
            if not rets or len(names) != 1 or not all(isinstance(r.value, ast.Name) for r in rets):
                raise Unsupported(f"{h.fq}: helper that builds `{table}` does not return one local table")
            out.extend(_table_fills(corpus, h, names.pop(), depth - 1))
    return out


@rule("C10.R6")
def r6_slug_preemption(corpus: Corpus, rep: Report, tier: str):
    rep.rule("C10.R6", "in the '#anchor' resolver only explicit targets may pre-empt the slug lookup (implicit section names are derived from the same titles as the slugs)")
    wfi, wst, reg, kinds = _writer(corpus)
    n = 0
    exports = _exports(corpus, wfi, reg)
    for kind, name, esite in exports:
        for f in corpus.all_functions():
            if f.is_lambda or (f.cls is not None and wfi.cls is not None and f.cls.fq == wfi.cls.fq):
                continue
            for r in _reader_exprs(f, kind, name, frozenset(n_ for k_, n_, _ in exports if k_ == "attrmap")):
                var = _reader_var(r)
                if var is None:
                    continue  # R5 reports it
                # the branch that resolves a link from the slug table
                for s_if in [x for x in f.local_nodes() if isinstance(x, ast.If) and _membership_table(x.test) == var and _stores_refid(x.body, f, corpus)]:
                    rep.saw_function(f.fq)
                    blk = None
                    pp = parent(s_if)
                    for fld in ("body", "orelse", "finalbody"):
                        if s_if in getattr(pp, fld, []):
                            blk = getattr(pp, fld)
                    if blk is None:
                        raise Unsupported(f"{f.module.site(s_if)}: position of the slug branch not understood")
                    for e in blk[: blk.index(s_if)]:
                        if not (isinstance(e, ast.If) and _stores_refid(e.body, f, corpus) and e.body and isinstance(e.body[-1], (ast.Continue, ast.Return))):
                            continue
                        n += 1
                        table = _membership_table(e.test)
                        if table is None:
                            raise Unsupported(f"{f.module.site(e)}: a branch resolves the link before the slug lookup on a test that is not a table membership: {short(e.test, 50)}")
                        k = f"{f.fq}|slug lookup pre-empted by `{table}`"
                        fills = _table_fills(corpus, f, table)
                        if not fills:
                            raise Unsupported(f"{f.module.site(e)}: cannot see how `{table}` is filled")
                        sites = [x for _h, x, _t in fills]
                        verdicts = [_explicit_only(h_, x, t_, var if h_ is f else None) for h_, x, t_ in fills]
                        bad = [(x, v) for x, v in zip(sites, verdicts) if v[0] == "bad"]
                        if bad:
                            x, v = bad[0]
                            rep.violation(
                                "C10.R6",
                                k,
                                fills[sites.index(x)][0].module.site(x),
                                f"`{table}` is consulted before the heading slugs, but {v[1]}. Implicit section names are the normalised heading titles, so an anchor that equals "
                                "another heading's title (`# a`, `# a`, `# a-1`: '#a-1') resolves to that other heading instead of its own",
                                [f"{f.module.site(e)} if {short(e.test, 50)}: refid from `{table}`; continue", f"{f.module.site(s_if)} if {short(s_if.test, 40)}: refid from the slug record"],
                            )
                        else:
                            rep.ok("C10.R6", k, f.module.site(e), verdicts[0][1])
    rep.expect_min("C10.R6", 1, "the explicit-target branch that precedes the slug branch in ResolveAnchorIds.apply")


def _cli_slug_function(corpus: Corpus, sib: Module):
    """(cli module, print_anchors, the `.use(anchors_plugin ...)` call, the function the plugin slugs with, is it the plugin's own)."""
    cli, pa, _fam, _uf, use = _cli_use(corpus)
    sf_arg = kwarg(use, "slug_func")
    if sf_arg is None:
        return cli, pa, use, _sibling_default_slug_func(sib), True
    d_ = dotted(sf_arg)
    f = corpus.find_function(cli.resolve(d_)) if d_ else None
    if f is None:
        raise Unsupported(f"{cli.site(sf_arg)}: slug function given to anchors_plugin by the CLI not understood: {short(sf_arg, 40)}")
    return cli, pa, use, f, False


def _plugin_slugs_raw_title(sib: Module) -> FunctionInfo:
    """Re-verify on the plugin's source that its slug function receives the joined title itself (nothing folds it before)."""
    sfps = [(f, title_fingerprint(f)) for f in sib.functions.values() if not f.is_lambda]
    sfps = [(f, x) for f, x in sfps if x is not None]
    if len(sfps) != 1:
        raise Unsupported(f"{SIBLING}: expected one title join, found {len(sfps)}")
    sf, sfp = sfps[0]
    tname = sfp["title_name"]
    if tname is None:
        raise Unsupported(f"{SIBLING}: the joined title is not bound to a name")
    join_stmt = parent(sfp["title_expr"]) if sfp["title_expr"] is not None else None
    for d in _assigns_to(sf, tname):
        if d is join_stmt:
            continue
        if sfp["title_expr"] is None and ((isinstance(d, ast.Assign) and isinstance(d.value, ast.Constant) and d.value.value == "") or (isinstance(d, ast.AugAssign) and enclosing_loop(d, sf) is sfp["join"])):
            continue
        raise Unsupported(f"{SIBLING}: the plugin post-processes the title before slugging (`{short(d, 50)}`)")
    outer: set[str] = set()
    f_ = sf
    while f_ is not None:
        outer |= set(f_.params)
        f_ = f_.parent_func
    loads = [n for n in walk_local(sf.node) if isinstance(n, ast.Name) and n.id == tname and isinstance(n.ctx, ast.Load)]
    if not loads:
        raise Unsupported(f"{SIBLING}: the joined title is never used")
    for n in loads:
        c = parent(n)
        if not (isinstance(c, ast.Call) and isinstance(c.func, ast.Name) and c.func.id in outer and len(c.args) == 1 and not c.keywords and c.args[0] is n):
            raise Unsupported(f"{SIBLING}: the plugin no longer calls its slug function on the joined title itself: {short(c, 50)}")
    return sf


@rule("C10.R7")
def r7_cli_slug_function_complete(corpus: Corpus, rep: Report, tier: str):
    rep.rule("C10.R7", "the plugin behind myst-anchors calls its slug function on the raw joined title, so the function the CLI installs performs every step of the documented rule itself (lower-case, spaces to hyphens, punctuation removal)")
    sib = _sibling(corpus, rep)
    sf = _plugin_slugs_raw_title(sib)
    rep.saw_function(sf.fq)
    oracle = _sibling_default_slug_func(sib)
    cli, pa, use, cfi, own = _cli_slug_function(corpus, sib)
    rep.saw_function(cfi.fq)
    rep.saw_call(cli.site(use))
    # the documented rule as transcribed in the plugin's own slugify; its strip() is not part of the rule (R2, F8)
    steps = [o for o in slug_pipeline(oracle) if o[0] != "strip"]
    str_steps = [o for o in steps if o[0] != "re.sub"]
    if not any(o[0] == "lower" for o in str_steps) or not any(o[0] == "replace" for o in str_steps) or len(steps) - len(str_steps) != 1:
        raise Unsupported(f"{SIBLING}: {oracle.qualname} is no longer lower-case / spaces to hyphens / one regex substitution")
    mine = slug_pipeline(cfi)
    vals = [_op_val(o) for o in mine]
    site = cfi.site() if not own else cli.site(use)
    shown = " -> ".join(_op_text(x) for x in mine) or "nothing"
    for o in str_steps:
        k = f"{pa.fq}|the slug function of myst-anchors applies {_op_text(o)} itself"
        if _op_val(o) in vals:
            rep.ok("C10.R7", k, site, f"{cfi.qualname}: {shown}")
        else:
            rep.violation(
                "C10.R7",
                k,
                site,
                f"myst-anchors installs {cfi.qualname} as the plugin's slug function, and the plugin calls it on the joined title as it is ({SIBLING}:{sf.qualname}); "
                f"{cfi.qualname} applies {shown}: `{_op_text(o)}` of the documented rule is missing, so the printed anchors are not the GitHub slugs "
                "(and differ from the rendered ones if a caller in the renderer makes up for the step): '# My Title' prints 'My-Title'",
                [f"{cli.site(use)} {short(use, 70)}", f"{SIBLING}:{sf.qualname} slug_func(title)"],
            )
    k = f"{pa.fq}|the slug function of myst-anchors removes punctuation itself"
    if any(o[0] == "re.sub" for o in mine):
        rep.ok("C10.R7", k, site, "regex substitution present (its pattern, flags and replacement: R2)")
    else:
        rep.violation("C10.R7", k, site, f"myst-anchors installs {cfi.qualname} as the plugin's slug function; it applies {shown}: no substitution removes punctuation")
    rep.expect_min("C10.R7", 3, "lower-case, spaces to hyphens, punctuation removal")


RULES = [r1_uniquifier, r2_sibling_agreement, r3_depth, r4_foreign_callable, r5_record_layout, r6_slug_preemption, r7_cli_slug_function_complete]


# ---------------------------------------------------------------------------
# mutants of the current tree


def mutants(corpus: Corpus):
    out: list = []
    base = corpus.mod(BASE)
    cus = corpus.func(CUS)
    src = base.src
    # ---- R1
    sh = uniquifier_shape(cus)
    if sh is not None:
        cdef = sh["cdef"]
        if sh["variant"] is None:
            # F7 reverted: rebuild the candidate from itself
            new = 'f"{%s}%s{%s}"' % (sh["cand"], sh["sep"].replace('"', '\\"'), sh["counter"])
            out.append(Mutant("c10-f7-suffix-accumulates", "C10.R1", base.rel, splice(src, cdef.value, new), expect="uniquifier base", canary=True))
        else:
            out.append(("c10-f7-suffix-accumulates", "F7 is not repaired on this tree: C10.R1 fires on the tree itself"))
        out.append(Mutant("c10-uniq-counter-starts-at-0", "C10.R1", base.rel, splice(src, sh["start_node"], str(sh["start_node"].value - 1)), expect="suffix format", canary=sh["variant"] is not None))
        seg = segment(src, cdef.value)
        new = seg.replace("}" + sh["sep"] + "{", "}_{")
        if new != seg:
            out.append(Mutant("c10-uniq-separator-underscore", "C10.R1", base.rel, splice(src, cdef.value, new), expect="suffix format"))
        # increment before the candidate is rebuilt: first suffix becomes 2
        w = sh["loop"]
        inc_seg, c_seg = segment(src, sh["inc"]), segment(src, cdef)
        if sh["body"].index(sh["inc"]) > sh["body"].index(cdef):
            s2 = splice(src, sh["inc"], c_seg)
            s2 = splice(s2, cdef, inc_seg)  # cdef precedes inc: offsets before it are unchanged
            out.append(Mutant("c10-uniq-increment-first", "C10.R1", base.rel, s2, expect="suffix format"))
    if sh is not None and sh["test"] is sh["loop"].test:
        w = sh["loop"]
        # class "candidate handed out without a (complete) re-check": one-shot suffix, bounded retry
        head = segment(src, w)
        if head.startswith("while "):
            out.append(Mutant("c10-uniq-if-instead-of-while", "C10.R1", base.rel, splice(src, w, "if " + head[len("while "):]), expect="tested against the registry"))
        out.append(Mutant("c10-uniq-bounded-retry", "C10.R1", base.rel, splice(src, w.test, f"{segment(src, w.test)} and {sh['counter']} < 100"), expect="tested against the registry"))
        rets = [r for r in walk_local(cus.node) if isinstance(r, ast.Return) and isinstance(r.value, ast.Name) and r.value.id == sh["cand"]]
        if rets and sh["base"] != sh["cand"]:
            out.append(Mutant("c10-uniq-returns-base", "C10.R1", base.rel, splice(src, rets[-1].value, sh["base"]), expect="tested against the registry"))
    if sh is not None:
        # class "fast path hands out a string that was never probed against the registry"
        pre = [d for d in _assigns_to(cus, sh["cand"]) if d.lineno < sh["loop"].lineno]
        if pre:
            d0 = pre[-1]
            ind = " " * d0.col_offset
            fast = f'if {sh["base"]} in {sh["taken"]}:\n{ind}    return f"{{{sh["base"]}}}{sh["sep"]}{{len(list({sh["taken"]}))}}"\n{ind}'
            out.append(Mutant("c10-uniq-fast-path-untested", "C10.R1", base.rel, splice(src, d0, fast + segment(src, d0)), expect="tested against the registry"))
    # class "the registry shrinks in the middle of a document": snapshot/rollback or reset around a nested render
    for fi, call in _cus_call_sites(corpus):
        reg = arg_or_kw(call, 1, "slugs")
        if reg is None or fi.module is not base or fi.cls is None:
            continue
        nrt = corpus.lookup_method(fi.cls, "nested_render_text")
        if nrt is not None and nrt.module is base:
            body = [st for st in nrt.node.body if not (isinstance(st, ast.Expr) and isinstance(st.value, ast.Constant))]
            first, last = body[0], body[-1]
            ind = " " * first.col_offset
            rtxt = unparse(reg)
            s2 = splice(src, last, segment(src, last) + f"\n{ind}{rtxt} = _saved_slugs")
            s2 = splice(s2, first, f"_saved_slugs = dict({rtxt})\n{ind}" + segment(src, first))
            out.append(Mutant("c10-registry-rolled-back-after-nested-render", "C10.R1", base.rel, s2, expect="only grows"))
            out.append(Mutant("c10-registry-reset-in-nested-render", "C10.R1", base.rel, splice(src, first, f"{rtxt} = {{}}\n{ind}" + segment(src, first)), expect="only grows"))
    # class "the registry outlives the document": initialised once / reset only on some paths
    for fi, call in _cus_call_sites(corpus):
        reg = arg_or_kw(call, 1, "slugs")
        if reg is None or fi.module is not base or fi.cls is None:
            continue
        try:
            per_render, _else = _registry_resets(corpus, fi, reg)
        except Unsupported:
            per_render = []
        init = fi.cls.methods.get("__init__")
        if per_render and init is not None and per_render[0][0].module is base:
            m, n = per_render[0]
            seg = segment(src, n)
            ind = " " * n.col_offset
            out.append(Mutant("c10-registry-reset-conditional", "C10.R1", base.rel, splice(src, n, f"if not hasattr(self, {reg.attr!r}):\n{ind}    {seg}"), expect="re-created for every render"))
            last = init.node.body[-1]
            if last.lineno < n.lineno:
                s2 = splice(src, n, "pass")
                s2 = splice(s2, last, segment(src, last) + "\n" + " " * last.col_offset + seg)
                out.append(Mutant("c10-registry-init-only", "C10.R1", base.rel, s2, expect="re-created for every render"))
    for fi, call in _cus_call_sites(corpus):
        st0 = parent(call)
        if fi.module is base and isinstance(st0, ast.Assign) and isinstance(st0.targets[0], ast.Name):
            res0 = st0.targets[0].id
            stores0 = [n for n in walk_local(fi.node) if isinstance(n, ast.Assign) and len(n.targets) == 1 and isinstance(n.targets[0], ast.Subscript) and isinstance(n.targets[0].slice, ast.Name) and n.targets[0].slice.id == res0]
            if stores0:
                n0 = stores0[0]
                ind0 = " " * n0.col_offset
                out.append(Mutant("c10-empty-slug-not-recorded", "C10.R1", base.rel, splice(src, n0, f"if {res0}:\n{ind0}    {segment(src, n0)}"), expect="empty slug"))
    for fi, call in _cus_call_sites(corpus):
        reg = arg_or_kw(call, 1, "slugs")
        if reg is not None and fi.module is base:
            out.append(Mutant("c10-registry-other-collection", "C10.R1", base.rel, splice(src, reg, "self.document.ids"), expect="registry"))
    # ---- R2
    dfi, sel = _default_slug_func(corpus)
    pipe = slug_pipeline(dfi)
    dsrc = dfi.module.src
    rx = [o for o in pipe if o[0] == "re.sub"]
    if rx:
        node = rx[0][5]
        out.append(Mutant("c10-regex-drops-cjk-range", "C10.R2", dfi.module.rel, splice(dsrc, node, 'r"[^\\w\\- ]"'), expect="slug regex", canary=True))
        out.append(Mutant("c10-regex-keeps-dots", "C10.R2", dfi.module.rel, splice(dsrc, node, 'r"[^\\w\\u4e00-\\u9fff\\-. ]"'), expect="slug regex"))
        cn = parent(node)
        if isinstance(cn, ast.Call) and len(cn.args) == 1 and not cn.keywords:
            out.append(Mutant("c10-regex-ascii-flag", "C10.R2", dfi.module.rel, splice(dsrc, node, segment(dsrc, node) + ", re.ASCII"), expect="slug regex"))
    # revert 511da59: marks / joiners deleted again; the CLI falls back to the plugin's own slugify
    subcall = find_node(dfi, lambda n: isinstance(n, ast.Call) and isinstance(n.func, ast.Attribute) and n.func.attr == "sub" and len(n.args) == 2 and isinstance(n.args[0], ast.Name))
    if subcall is not None and rx and rx[0][3].startswith("keep:"):
        out.append(Mutant("c10-revert-511da59-marks-deleted", "C10.R2", dfi.module.rel, splice(dsrc, subcall.args[0], '""'), expect="combining marks"))
        keepdef = find_node(dfi, lambda n: isinstance(n, ast.Compare) and isinstance(n.ops[0], ast.In) and isinstance(n.comparators[0], ast.Constant) and "\u200d" in str(n.comparators[0].value))
        if keepdef is not None:
            out.append(Mutant("c10-joiners-deleted", "C10.R2", dfi.module.rel, splice(dsrc, keepdef, "False"), expect="combining marks"))
    try:
        cli_, pa_, _fam_, _uf_, use_ = _cli_use(corpus)
        sfk = [kw for kw in use_.keywords if kw.arg == "slug_func"]
        if sfk:
            seg_ = segment(cli_.src, use_)
            kwseg = "slug_func=" + segment(cli_.src, sfk[0].value)
            new_ = seg_.replace(", " + kwseg, "").replace(kwseg + ", ", "")
            if new_ != seg_:
                out.append(Mutant("c10-revert-511da59-cli-uses-plugin-slugify", "C10.R2", cli_.rel, splice(cli_.src, use_, new_), expect="renderer's default slug function"))
        # revert 8355bc2: input decoded as plain utf8
        enc = find_node(pa_, lambda n: isinstance(n, ast.Constant) and isinstance(n.value, str) and n.value.lower().replace("_", "-") in ("utf-8-sig", "utf8-sig"))
        bomcall = find_node(pa_, lambda n: isinstance(n, ast.Call) and isinstance(n.func, ast.Attribute) and n.func.attr in ("removeprefix", "lstrip") and n.args and isinstance(n.args[0], ast.Constant) and n.args[0].value == "\ufeff")
        if bomcall is not None:
            recv = segment(cli_.src, bomcall.func.value)
            # revert e0958d9 and partial weakenings: the text from stdin keeps its mark
            out.append(Mutant("c10-revert-e0958d9-stdin-bom-kept", "C10.R2", cli_.rel, splice(cli_.src, bomcall, recv), expect="standard input"))
            out.append(Mutant("c10-stdin-bom-removed-at-the-wrong-end", "C10.R2", cli_.rel, splice(cli_.src, bomcall, f'{recv}.removesuffix("\\ufeff")'), expect="standard input"))
            out.append(Mutant("c10-stdin-bom-wrong-code-point", "C10.R2", cli_.rel, splice(cli_.src, bomcall, f'{recv}.removeprefix("\\ufffe")'), expect="standard input"))
        if enc is not None:
            # revert 8355bc2: with the text itself stripped the encoding alone is harmless; both routes reverted
            s_ = splice(cli_.src, bomcall, segment(cli_.src, bomcall.func.value)) if bomcall is not None and bomcall.lineno > enc.lineno else cli_.src
            out.append(Mutant("c10-revert-8355bc2-bom-kept", "C10.R2", cli_.rel, splice(s_, enc, '"utf8"'), expect="decoded without a byte order mark"))
    except Unsupported:
        pass
    # revert 4dae2c7: front matter may set global-only options again
    cmn0 = corpus.mod("config.main")
    mfl = cmn0.functions.get("merge_file_level")
    if mfl is not None:
        gif = find_node(mfl, lambda n: isinstance(n, ast.If) and "global_only" in unparse(n.test))
        if gif is not None:
            out.append(Mutant("c10-revert-4dae2c7-global-only-ignored", "C10.R4", cmn0.rel, splice(cmn0.src, gif.test, "False"), expect="refuses global_only"))
            out.append(Mutant("c10-global-only-test-inverted", "C10.R4", cmn0.rel, splice(cmn0.src, gif.test, f"not {segment(cmn0.src, gif.test)}"), expect="refuses global_only"))
            # class "a value is stored (directly or through a helper) before the global_only test"
            ind = " " * gif.col_offset
            gseg = segment(cmn0.src, gif)
            out.append(Mutant("c10-global-only-store-before-test", "C10.R4", cmn0.rel, splice(cmn0.src, gif, f"setattr(new, name, value)\n{ind}{gseg}"), expect="refuses global_only"))
            helper = "\n\ndef _store_file_level_value(new, name, value):\n    setattr(new, name, value)\n"
            out.append(Mutant("c10-global-only-helper-store-before-test", "C10.R4", cmn0.rel, splice(cmn0.src, gif, f"_store_file_level_value(new, name, value)\n{ind}{gseg}") + helper, expect="refuses global_only"))
    try:
        fld_, fst_, ci0 = _slug_func_field(corpus)
        flag_ = _field_metadata(fst_).get("global_only")
        if flag_ is not None:
            out.append(Mutant("c10-slug-func-not-global-only", "C10.R4", cmn0.rel, splice(cmn0.src, flag_, "False"), expect="global-only option"))
        # revert c6e9713: the config pickles its slug function again
        gs_ = ci0.methods.get("__getstate__")
        if gs_ is not None:
            nm_off = gs_.node
            line = cmn0.lines[nm_off.lineno - 1]
            col = line.index("__getstate__")
            lines_ = cmn0.src.splitlines(keepends=True)
            lines_[nm_off.lineno - 1] = line[:col] + "_unused_getstate" + line[col + len("__getstate__"):] + ("\n" if lines_[nm_off.lineno - 1].endswith("\n") else "")
            out.append(Mutant("c10-revert-c6e9713-getstate-dropped", "C10.R4", cmn0.rel, "".join(lines_), expect="pickled state"))
            stn = find_node(gs_, lambda n: isinstance(n, ast.Assign) and isinstance(n.targets[0], ast.Subscript) and isinstance(n.targets[0].slice, ast.Constant) and n.targets[0].slice.value == fld_)
            # class "producing the pickled state changes the live configuration"
            if stn is not None and isinstance(stn.targets[0].value, ast.Name):
                sname = stn.targets[0].value.id
                sdefs = [d for d in _assigns_to(gs_, sname) if isinstance(d, ast.Assign)]
                if len(sdefs) == 1 and _instance_dict_kind(gs_, sdefs[0].value) == "copy":
                    out.append(Mutant("c10-getstate-mutates-live-dict", "C10.R4", cmn0.rel, splice(cmn0.src, sdefs[0].value, f"vars({gs_.params[0]})"), expect="configuration in use"))
                ind_ = " " * stn.col_offset
                out.append(Mutant("c10-getstate-resets-live-attribute", "C10.R4", cmn0.rel, splice(cmn0.src, stn, segment(cmn0.src, stn) + f"\n{ind_}{gs_.params[0]}.{fld_} = None"), expect="configuration in use"))
            if stn is not None:
                out.append(Mutant("c10-getstate-keeps-slug-func", "C10.R4", cmn0.rel, splice(cmn0.src, stn, "pass"), expect="pickled state"))
    except Unsupported:
        pass
    strip = [o for o in pipe if o[0] == "strip"]
    if strip:
        c = strip[0][2]
        out.append(Mutant("c10-f8-strip-dropped", "C10.R2", dfi.module.rel, splice(dsrc, c, segment(dsrc, c.func.value)), expect="missing strip"))
    # (while F8 is a known finding there is no strip() to drop: no revert mutant)
    low = [o for o in pipe if o[0] == "lower"]
    if low:
        c = low[0][2]
        out.append(Mutant("c10-pipeline-casefold", "C10.R2", dfi.module.rel, splice(dsrc, c.func, segment(dsrc, c.func.value) + ".casefold"), expect="lower"))
    rpl = [o for o in pipe if o[0] == "replace"]
    if rpl:
        c = rpl[0][2]
        out.append(Mutant("c10-pipeline-replace-dropped", "C10.R2", dfi.module.rel, splice(dsrc, c, segment(dsrc, c.func.value)), expect="missing replace"))
    # ---- R7: a step of the rule moved out of the function that myst-anchors hands to the plugin
    try:
        _c7, _p7, _u7, cfi7, own7 = _cli_slug_function(corpus, corpus.sibling(SIBLING))
        pipe7 = [] if own7 else slug_pipeline(cfi7)
        src7 = cfi7.module.src
        for nm7, mid7 in (("lower", "c10-cli-slug-function-keeps-case"), ("replace", "c10-cli-slug-function-keeps-spaces")):
            hit7 = [o for o in pipe7 if o[0] == nm7]
            if not hit7:
                out.append((mid7, f"the slug function of myst-anchors has no {nm7}() step on this tree"))
                continue
            c7 = hit7[0][2]
            out.append(Mutant(mid7, "C10.R7", cfi7.module.rel, splice(src7, c7, segment(src7, c7.func.value)), expect=f"applies {nm7}("))
        low7 = [o for o in pipe7 if o[0] == "lower"]
        calls7 = [c_ for c_ in sel["calls"] if len(c_.args) == 1]
        if low7 and calls7 and cfi7.module is base and cfi7.fq == dfi.fq and low7[0][2].end_lineno < calls7[0].lineno:
            # the seeded cooperating pair: the renderer folds the case at its own call, the default no longer does; the CLI is not adapted
            a7 = calls7[0].args[0]
            s7 = splice(src, a7, f"({segment(src, a7)}).lower()")
            s7 = splice(s7, low7[0][2], segment(src, low7[0][2].func.value))  # earlier in the file: offsets before it are unchanged
            out.append(Mutant("c10-lower-moved-to-the-renderer-call", "C10.R7", base.rel, s7, expect="applies lower("))
        else:
            out.append(("c10-lower-moved-to-the-renderer-call", "default slug function is not the CLI's / not defined before compute_unique_slug"))
    except Unsupported as e7:
        out.append(("c10-cli-slug-function-keeps-case", f"not computable: {e7}"))
    fp = title_fingerprint(cus, corpus)
    if fp is not None:
        tn = fp["types_node"]
        tm_ = fp["owner"].module
        out.append(Mutant("c10-title-includes-html-inline", "C10.R2", tm_.rel, splice(tm_.src, tn, '["text", "code_inline", "html_inline"]'), expect="token types"))
        out.append(Mutant("c10-title-drops-code-inline", "C10.R2", tm_.rel, splice(tm_.src, tn, '["text"]'), expect="token types"))
        # class "the title has a second source besides the children join"
        tname = fp["title_name"]
        tstmt = parent(fp["title_expr"]) if fp["title_expr"] is not None else None
        itok = None
        for n in walk_local(cus.node):
            if isinstance(n, ast.Attribute) and n.attr == fp["collection"] and isinstance(n.value, ast.Name):
                itok = n.value.id
        if tname and isinstance(tstmt, ast.Assign) and fp["owner"] is cus and itok:
            ind = " " * tstmt.col_offset
            out.append(Mutant("c10-title-fallback-raw-content", "C10.R2", base.rel, splice(src, tstmt, segment(src, tstmt) + f"\n{ind}if not {tname}:\n{ind}    {tname} = {itok}.content"), expect="single source"))
            if sel["calls"]:
                c0 = sel["calls"][0]
                out.append(Mutant("c10-title-raw-content-when-plain", "C10.R2", base.rel, splice(src, c0.args[0], f"{tname} if len({itok}.children or []) != 1 else {itok}.content"), expect="single source"))
    cli = corpus.mod("cli")
    for q, f in cli.functions.items():
        if q.startswith("print_anchors") and not f.is_lambda:
            cmp_ = find_node(f, lambda n: isinstance(n, ast.Compare) and "tag" in unparse(n.left) and isinstance(n.ops[0], ast.LtE))
            if cmp_ is not None:
                out.append(Mutant("c10-cli-filter-strict", "C10.R2", cli.rel, splice(cli.src, cmp_, f"{segment(cli.src, cmp_.left)} < {segment(cli.src, cmp_.comparators[0])}"), expect="CLI"))
            if cmp_ is not None:
                # class "the CLI's output filter tests more than heading-ness and depth"
                tk = [x.value.id for x in ast.walk(cmp_) if isinstance(x, ast.Attribute) and x.attr == "tag" and isinstance(x.value, ast.Name)]
                if tk:
                    out.append(Mutant("c10-cli-filter-top-level-only", "C10.R2", cli.rel, splice(cli.src, cmp_, f"{segment(cli.src, cmp_)} and {tk[0]}.level == 0"), expect="every heading within the depth"))
                    out.append(Mutant("c10-cli-filter-skips-hidden", "C10.R2", cli.rel, splice(cli.src, cmp_, f"{segment(cli.src, cmp_)} and not {tk[0]}.hidden"), expect="every heading within the depth"))
            use = find_node(f, lambda n: isinstance(n, ast.Call) and isinstance(n.func, ast.Attribute) and n.func.attr == "use" and kwarg(n, "max_level") is not None)
            if use is not None and not isinstance(kwarg(use, "max_level"), ast.Constant):
                # class "truthiness default where 0 is a legal value"
                lv = kwarg(use, "max_level")
                lseg = segment(cli.src, lv)
                out.append(Mutant("c10-cli-level-falsy-default", "C10.R2", cli.rel, splice(cli.src, lv, f"({lseg} or 2)"), expect="depth 0 is honoured"))
                out.append(Mutant("c10-cli-level-truthy-conditional", "C10.R2", cli.rel, splice(cli.src, lv, f"({lseg} if {lseg} else 2)"), expect="depth 0 is honoured"))
            if use is not None:
                out.append(Mutant("c10-cli-max-level-default", "C10.R2", cli.rel, splice(cli.src, kwarg(use, "max_level"), "2"), expect="CLI"))
    pa = cli.func("print_anchors")
    mk = find_node(pa, lambda n: isinstance(n, ast.Call) and cli.resolve(dotted(n.func) or "").endswith("config.main.MdParserConfig") and not n.args and not n.keywords)
    if mk is not None:
        # class "the CLI parses with a configuration / rule set other than the renderer's default"
        out.append(Mutant("c10-cli-commonmark-only", "C10.R2", cli.rel, splice(cli.src, mk, segment(cli.src, mk.func) + "(commonmark_only=True)"), expect="default configuration"))
        out.append(Mutant("c10-cli-gfm-only", "C10.R2", cli.rel, splice(cli.src, mk, segment(cli.src, mk.func) + "(gfm_only=True)"), expect="default configuration"))
        out.append(Mutant("c10-cli-disable-syntax", "C10.R2", cli.rel, splice(cli.src, mk, segment(cli.src, mk.func) + '(disable_syntax=["front_matter"])'), expect="default configuration"))
    use0 = find_node(pa, lambda n: isinstance(n, ast.Expr) and isinstance(n.value, ast.Call) and isinstance(n.value.func, ast.Attribute) and n.value.func.attr == "use" and isinstance(n.value.func.value, ast.Name))
    if use0 is not None:
        pv = use0.value.func.value.id
        ind = " " * use0.col_offset
        out.append(Mutant("c10-cli-disables-rule", "C10.R2", cli.rel, splice(cli.src, use0, f'{pv}.disable("front_matter")\n{ind}{segment(cli.src, use0)}'), expect="switch syntax rules"))
    # ---- R6: class "names that are not explicit targets pre-empt the slug lookup"
    tm = corpus.mod("mdit_to_docutils.transforms")
    ap = tm.func("ResolveAnchorIds.apply")
    loop = find_node(ap, lambda n: isinstance(n, ast.For) and isinstance(n.iter, ast.Call) and isinstance(n.iter.func, ast.Attribute) and n.iter.func.attr == "items" and _is_nametypes(n.iter.func.value) and isinstance(n.target, ast.Tuple))
    if loop is not None:
        flag = loop.target.elts[1].id
        g = find_node(ap, lambda n: isinstance(n, ast.If) and n in loop.body and isinstance(n.test, ast.UnaryOp) and isinstance(n.test.operand, ast.Name) and n.test.operand.id == flag)
        if g is not None:
            out.append(Mutant("c10-preempt-guard-dropped", "C10.R6", tm.rel, splice(tm.src, g.test, "False"), expect="pre-empted"))
            out.append(Mutant("c10-preempt-guard-inverted", "C10.R6", tm.rel, splice(tm.src, g.test, flag), expect="pre-empted"))
            s2 = splice(tm.src, g.test, "False")  # g lies after the loop header: splice it first
            s2 = splice(s2, loop.iter, segment(tm.src, loop.iter.func.value))
            s2 = splice(s2, loop.target, segment(tm.src, loop.target.elts[0]))
            out.append(Mutant("c10-preempt-all-names", "C10.R6", tm.rel, s2, expect="pre-empted"))
            s3 = splice(tm.src, g.test, "False")
            s3 = splice(s3, loop.iter.func.value, segment(tm.src, loop.iter.func.value.value) + ".nameids")
            out.append(Mutant("c10-preempt-nameids-items", "C10.R6", tm.rel, s3, expect="pre-empted"))
    # ---- R5: class "the slug table is searched under a many-to-one mapping of the link fragment"
    slug_vars = set()
    for n_ in walk_local(ap.node):
        if isinstance(n_, (ast.Assign, ast.AnnAssign)) and getattr(n_, "value", None) is not None and any(isinstance(x, ast.Constant) and x.value == "myst_slugs" for x in ast.walk(n_.value)):
            tg_ = n_.targets[0] if isinstance(n_, ast.Assign) else n_.target
            if isinstance(tg_, ast.Name):
                slug_vars.add(tg_.id)

    def _is_slug_branch(n: ast.AST) -> bool:
        if not (isinstance(n, ast.If) and _stores_refid(n.body)):
            return False
        t_ = _membership_table(n.test)
        return bool(t_) and t_ in slug_vars and any(
            isinstance(x, ast.Assign) and isinstance(x.targets[0], ast.Tuple) and isinstance(x.value, ast.Subscript) and isinstance(x.value.value, ast.Name) and x.value.value.id == t_
            for x in n.body
        )

    slug_if = find_node(ap, _is_slug_branch)
    if slug_if is not None:
        tab = _membership_table(slug_if.test)
        cmpS = next(t for t, pol in facts(slug_if.test, True) if isinstance(t, ast.Compare) and isinstance(t.comparators[0], ast.Name) and t.comparators[0].id == tab)
        # class "a slug hit is cached in the table that pre-empts the slug lookup"
        pp_ = parent(slug_if)
        blk_ = next((getattr(pp_, fld) for fld in ("body", "orelse") if slug_if in getattr(pp_, fld, [])), [])
        pre_ = [e for e in blk_[: blk_.index(slug_if)] if isinstance(e, ast.If) and _stores_refid(e.body) and _membership_table(e.test)] if blk_ else []
        unp_ = find_node(ap, lambda n: isinstance(n, ast.Assign) and n in slug_if.body and isinstance(n.targets[0], ast.Tuple) and isinstance(n.value, ast.Subscript))
        if pre_ and unp_ is not None:
            e0 = pre_[0]
            cmp0 = next(t for t, pol in facts(e0.test, True) if isinstance(t, ast.Compare))
            names_ = [x.id for x in unp_.targets[0].elts if isinstance(x, ast.Name) and x.id != "_"]
            ind_ = " " * unp_.col_offset
            out.append(Mutant(
                "c10-slug-hit-cached-as-explicit-target", "C10.R6", tm.rel,
                splice(tm.src, unp_, segment(tm.src, unp_) + f"\n{ind_}{_membership_table(e0.test)}[{segment(tm.src, cmp0.left)}] = ({', '.join(names_)})"),
                expect="pre-empted",
            ))
        if isinstance(cmpS.left, ast.Name):
            kname = cmpS.left.id
            kdefs = [d for d in _assigns_to(ap, kname) if isinstance(d, ast.Assign)]
            if len(kdefs) == 1:
                out.append(Mutant("c10-slug-lookup-normalised-fragment", "C10.R5", tm.rel, splice(tm.src, kdefs[0].value, f"nodes.fully_normalize_name({segment(tm.src, kdefs[0].value)})"), expect="as written"))
            spots = [cmpS.left] + [n.slice for n in walk_local(ap.node) if isinstance(n, ast.Subscript) and isinstance(n.value, ast.Name) and n.value.id == tab and isinstance(n.slice, ast.Name) and n.slice.id == kname]
            spots.sort(key=lambda n: (n.lineno, n.col_offset), reverse=True)

            def all_keys(text: str) -> str:
                out_ = tm.src
                for sp in spots:  # from the end of the file backwards: earlier offsets stay valid
                    out_ = splice(out_, sp, text)
                return out_

            if len(spots) > 1:
                out.append(Mutant("c10-slug-lookup-case-folded", "C10.R5", tm.rel, all_keys(f"{kname}.lower()"), expect="as written"))
                other = find_node(ap, lambda n: isinstance(n, ast.Assign) and isinstance(n.value, ast.Call) and (dotted(n.value.func) or "").endswith("fully_normalize_name") and isinstance(n.targets[0], ast.Name))
                if other is not None and other.lineno < slug_if.lineno:
                    out.append(Mutant("c10-slug-lookup-reuses-normalised-name", "C10.R5", tm.rel, all_keys(other.targets[0].id), expect="as written"))
    rm_ = corpus.mod("sphinx_ext.myst_refs")
    rd = rm_.functions.get("MystReferenceResolver.resolve_myst_ref_doc")
    if rd is not None:
        kd = find_node(rd, lambda n: isinstance(n, (ast.Assign, ast.AnnAssign)) and n.value is not None and isinstance(n.value, ast.Subscript) and isinstance(n.value.slice, ast.Constant) and n.value.slice.value == "reftargetid")
        if kd is not None:
            out.append(Mutant("c10-doc-anchor-lookup-case-folded", "C10.R5", rm_.rel, splice(rm_.src, kd.value, f"({segment(rm_.src, kd.value)} or '').lower()"), expect="as written"))
    # ---- R4: revert 47dc5e3 and partial weakenings of the result-type check
    tchk = find_node(cus, lambda n: isinstance(n, ast.If) and any(isinstance(x, ast.Call) and dotted(x.func) == "isinstance" for x in ast.walk(n.test)) and any(isinstance(x, ast.Raise) for x in n.body))
    if tchk is not None:
        ic = [x for x in ast.walk(tchk.test) if isinstance(x, ast.Call) and dotted(x.func) == "isinstance"][0]
        rn = segment(src, ic.args[0])
        out.append(Mutant("c10-revert-47dc5e3-result-unchecked", "C10.R4", base.rel, splice(src, tchk.test, "False"), expect="checked to be a string"))
        out.append(Mutant("c10-result-check-rejects-empty-slug", "C10.R4", base.rel, splice(src, ic, f"({rn} and {segment(src, ic)})"), expect="empty result"))
        ind_t = " " * tchk.col_offset
        out.append(Mutant("c10-empty-slug-raises", "C10.R4", base.rel, splice(src, tchk, segment(src, tchk) + f"\n{ind_t}if not {rn}:\n{ind_t}    raise ValueError('empty slug')"), expect="empty result"))
        out.append(Mutant("c10-result-check-none-only", "C10.R4", base.rel, splice(src, tchk.test, f"{rn} is None"), expect="checked to be a string"))
        out.append(Mutant("c10-result-check-admits-int", "C10.R4", base.rel, splice(src, ic.args[1], "(str, int)"), expect="checked to be a string"))
        out.append(Mutant("c10-result-check-only-asserted", "C10.R4", base.rel, splice(src, tchk, f"assert isinstance({rn}, str) or True"), expect="checked to be a string"))
    # ---- R5: class "the renderer of id links stores a many-to-one image of the fragment"
    for f_ in base.functions.values():
        if f_.is_lambda:
            continue
        mk_ = find_node(f_, lambda n: isinstance(n, ast.Assign) and any(isinstance(t, ast.Subscript) and isinstance(t.slice, ast.Constant) and t.slice.value == "id_link" for t in n.targets))
        if mk_ is None:
            continue
        ru_ = find_node(f_, lambda n: isinstance(n, ast.Assign) and any(isinstance(t, ast.Subscript) and isinstance(t.slice, ast.Constant) and t.slice.value == "refuri" for t in n.targets))
        if ru_ is not None:
            vseg = segment(src, ru_.value)
            out.append(Mutant("c10-id-link-fragment-normalised", "C10.R5", base.rel, splice(src, ru_.value, f"nodes.fully_normalize_name({vseg})"), expect="stored as written"))
            out.append(Mutant("c10-id-link-fragment-lower-cased", "C10.R5", base.rel, splice(src, ru_.value, f"{vseg}.lower()"), expect="stored as written"))
    # ---- R3(b): class "the configuration validator rejects a documented depth"
    cmn = corpus.mod("config.main")
    ci_ = cmn.classes.get("MdParserConfig")
    if ci_ is not None:
        for st in ci_.node.body:
            if isinstance(st, ast.AnnAssign) and isinstance(st.target, ast.Name) and st.target.id == "heading_anchors" and st.value is not None:
                inc = [c for c in ast.walk(st.value) if isinstance(c, ast.Call) and (dotted(c.func) or "").split(".")[-1] == "in_" and len(c.args) == 1]
                if inc:
                    out.append(Mutant("c10-depth-domain-range-7", "C10.R3", cmn.rel, splice(cmn.src, inc[0].args[0], "range(7)"), expect="documented depth"))
                    out.append(Mutant("c10-depth-domain-starts-at-1", "C10.R3", cmn.rel, splice(cmn.src, inc[0].args[0], "[1, 2, 3, 4, 5, 6, 7]"), expect="documented depth"))
    # ---- R3
    for fi, call in _cus_call_sites(corpus):
        if fi.module is not base:
            continue
        iff = find_node(fi, lambda n: isinstance(n, ast.If) and any(isinstance(x, ast.Attribute) and x.attr == "heading_anchors" for x in ast.walk(n.test)))
        if iff is not None and isinstance(iff.test, ast.Compare) and isinstance(iff.test.ops[0], ast.Gt):
            t = iff.test
            out.append(Mutant("c10-depth-off-by-one", "C10.R3", base.rel, splice(src, t, f"{segment(src, t.left)} >= {segment(src, t.comparators[0])}"), expect="depth limit", canary=True))
            out.append(Mutant("c10-depth-reversed", "C10.R3", base.rel, splice(src, t, f"{segment(src, t.left)} < {segment(src, t.comparators[0])}"), expect="depth limit"))
            out.append(Mutant("c10-depth-guard-dropped", "C10.R3", base.rel, splice(src, t, "False"), expect="depth limit"))
        # ---- R4
        h = find_node(fi, lambda n: isinstance(n, ast.ExceptHandler) and n.type is not None and unparse(n.type) == "Exception" and any(isinstance(x, ast.Attribute) and x.attr == "HEADING_SLUG" for x in ast.walk(n)))
        if h is not None:
            out.append(Mutant("c10-slug-handler-narrowed", "C10.R4", base.rel, splice(src, h.type, "(TypeError, ValueError)"), expect="broad handler", canary=True))
            hs = find_node(fi, lambda n: isinstance(n, ast.Attribute) and n.attr == "HEADING_SLUG")
            out.append(Mutant("c10-slug-handler-other-subtype", "C10.R4", base.rel, splice(src, hs, "MystWarnings.NOT_SUPPORTED"), expect="exactly one HEADING_SLUG"))
            last = h.body[-1]
            ind = " " * last.col_offset
            seg = segment(src, last)
            reg = arg_or_kw(call, 1, "slugs")
            if reg is not None:
                out.append(Mutant("c10-slug-handler-records-fallback", "C10.R4", base.rel, splice(src, last, seg + f"\n{ind}{unparse(reg)}[name] = (node.line, node['ids'][0], implicit_text)"), expect="stores no slug"))
            out.append(Mutant("c10-slug-handler-reraises", "C10.R4", base.rel, splice(src, last, seg + f"\n{ind}raise"), expect="does not raise"))
            out.append(Mutant("c10-slug-handler-warns-twice", "C10.R4", base.rel, splice(src, last, seg + f"\n{ind}{seg}"), expect="exactly one HEADING_SLUG"))
    out.append(Mutant("c10-custom-slug-func-ignored", "C10.R4", base.rel, splice(src, sel["sel"].value, sel["default"]) if False else splice(src, sel["when_set"], sel["default"]), expect="replaces the default"))
    # ---- R5
    wfi, wst, reg, kinds = _writer(corpus)
    elts = wst.value.elts
    kinds = ["ID" if k_ == "ID*" else k_ for k_ in kinds]
    p_id, p_t = kinds.index("ID"), kinds.index("TITLE")
    if not _recomputed_id(wfi, elts[p_id]):
        # class "the record's id is recomputed instead of read from the node"
        nm_ = [x.id for x in ast.walk(elts[p_t]) if isinstance(x, ast.Name)]
        out.append(Mutant("c10-record-id-recomputed", "C10.R5", wfi.module.rel, splice(wfi.module.src, elts[p_id], f"nodes.make_id({nm_[0] if nm_ else 'name'})"), expect="registered id"))
    order = list(range(len(elts)))
    order[p_id], order[p_t] = order[p_t], order[p_id]
    out.append(Mutant("c10-writer-record-swapped", "C10.R5", wfi.module.rel, splice(wfi.module.src, wst.value, "(" + ", ".join(segment(wfi.module.src, elts[i]) for i in order) + ")"), expect="unpack", canary=False))
    for modname, q, tag in (("mdit_to_docutils.transforms", "ResolveAnchorIds.apply", "transform"), ("sphinx_ext.myst_refs", "MystReferenceResolver.resolve_myst_ref_doc", "sphinx")):
        m = corpus.mod(modname)
        try:
            f = m.func(q)
        except Exception:
            out.append((f"c10-reader-unpack-swapped-{tag}", f"{q} not found"))
            continue
        tup = find_node(f, lambda n: isinstance(n, ast.Assign) and isinstance(n.targets[0], ast.Tuple) and len(n.targets[0].elts) == len(kinds) and isinstance(n.value, ast.Subscript) and "slug" in unparse(n.value))
        if tup is None:
            out.append((f"c10-reader-unpack-swapped-{tag}", "unpack not found"))
            continue
        te = tup.targets[0].elts
        new = [segment(m.src, e) for e in te]
        new[p_id], new[p_t] = new[p_t], new[p_id]
        out.append(Mutant(f"c10-reader-unpack-swapped-{tag}", "C10.R5", m.rel, splice(m.src, tup.targets[0], ", ".join(new)), expect="unpack"))
        if tag == "transform":
            ind = " " * tup.col_offset
            rec = segment(m.src, tup.value)
            out.append(Mutant("c10-reader-positional-wrong-index", "C10.R5", m.rel, splice(m.src, tup, f"{new[p_t] if False else segment(m.src, te[p_id])} = {rec}[0]\n{ind}{segment(m.src, te[p_t])} = {rec}[{p_t}]"), expect="unpack"))
        new2 = [segment(m.src, e) for e in te]
        new2[0], new2[p_id] = new2[p_id], new2[0]
        out.append(Mutant(f"c10-reader-id-from-line-{tag}", "C10.R5", m.rel, splice(m.src, tup.targets[0], ", ".join(new2)), expect="unpack"))
    return out
