"""E3 - call resolution, light receiver typing, call graph with frozen special edges."""

from __future__ import annotations

import ast
import builtins

from .corpus import (
    AnchorMissing,
    ClassInfo,
    Corpus,
    FunctionInfo,
    calls_in,
    dotted,
    enclosing_function,
    module_of,
    walk_local,
)

# method names that builtin containers/strings also define: never resolved by
# name alone, only through a typed receiver
_BUILTIN_METHOD_NAMES: set[str] = set()
for _t in (str, bytes, list, dict, set, frozenset, tuple, int, float, object):
    _BUILTIN_METHOD_NAMES.update(n for n in dir(_t) if not n.startswith("__"))
_BUILTIN_METHOD_NAMES.update({"popleft", "appendleft", "render", "parse", "run", "walk", "read", "write", "close", "match", "search", "sub", "feed", "reset", "warning", "error", "info", "debug", "emit", "connect", "send", "flush", "decompress", "group", "start", "end", "span", "is_file", "exists", "read_text", "joinpath", "absolute"})

BUILTIN_NAMES = set(dir(builtins))


class External(str):
    """A callee outside the package, by dotted name (``yaml.safe_load``)."""


class Unresolved(str):
    """A call whose target could not be resolved (``?.m``)."""


# ---------------------------------------------------------------------------
# Frozen special edges, each confirmed by reading (see DESIGN.md E3).
# key: caller fq  ->  list of (matcher on the call's func text, edge kind)
RENDER_DISPATCH = "render-dispatch"  # self.rules[f"render_{type}"](child) -> every render_* method
VALIDATORS = "validators"  # field.metadata["validator"](...) and closure parameters -> all validators
WARNING_CB = "warning-callback"  # merge_file_level(warning=...) -> the lambdas built by both parsers
DIRECTIVE_RUN = "directive-run"  # directive_instance.run()
ROLE_FUNC = "role-func"  # role_func(...)
MD_RENDER = "md-render"  # MarkdownIt.render -> <renderer>.render
FOREIGN = "foreign-callable"  # callable taken from a registry/config, applied to document text
CONVERTER_TABLE = "converter-table"  # copy_attributes(converters={...}): literal tables of docutils option converters
TERMINAL_CTOR = "terminal-ctor"
ELEMENT_CTOR = "element-ctor"
RST_PARSE = "rst-parse"  # docutils rST parser: may run external directives/roles with the *real* state
MOCK_RST_PARSE = "mock-rst-parse"

SPECIAL_EDGES: dict[str, list[tuple[str, str]]] = {
    "myst_parser.mdit_to_docutils.base:DocutilsRenderer._render_tokens": [("self.rules[", RENDER_DISPATCH)],
    "myst_parser.mdit_to_docutils.base:DocutilsRenderer.render_children": [("self.rules[", RENDER_DISPATCH)],
    "myst_parser.config.dc_validators:validate_field": [("validator", VALIDATORS), ("field.metadata[", VALIDATORS)],
    "myst_parser.config.dc_validators:optional._validator": [("validator", VALIDATORS)],
    "myst_parser.config.dc_validators:deep_iterable._validator": [("iterable_validator", VALIDATORS), ("member_validator", VALIDATORS)],
    "myst_parser.config.dc_validators:deep_mapping._validator": [("mapping_validator", VALIDATORS), ("key_validator", VALIDATORS), ("value_validator", VALIDATORS)],
    "myst_parser.config.main:check_fence_as_directive": [("deep_iterable(", VALIDATORS)],
    "myst_parser.config.main:merge_file_level": [("warning", WARNING_CB)],
    "myst_parser.mdit_to_docutils.base:DocutilsRenderer.run_directive": [("directive_instance.run", DIRECTIVE_RUN)],
    "myst_parser.mocking:MockIncludeDirective.run": [("codeblock.run", DIRECTIVE_RUN)],
    "myst_parser.mdit_to_docutils.base:DocutilsRenderer.render_myst_role": [("role_func", ROLE_FUNC)],
    "myst_parser.parsers.docutils_:Parser.parse": [("parser.render", MD_RENDER)],
    "myst_parser.parsers.sphinx_:MystParser.parse": [("parser.render", MD_RENDER)],
    "myst_parser.parsers.directives:_parse_directive_options": [("converter", FOREIGN)],
    "myst_parser.mdit_to_docutils.base:compute_unique_slug": [("slug_func", FOREIGN)],
    "myst_parser.mdit_to_docutils.base:DocutilsRenderer.copy_attributes": [("converters[", CONVERTER_TABLE)],
    "myst_parser.parsers.parse_html:Tree.nest_terminal": [("klass", TERMINAL_CTOR)],
    "myst_parser.parsers.parse_html:Element.deepcopy": [("self.__class__", ELEMENT_CTOR)],
    "myst_parser.parsers.parse_html:TerminalElement.deepcopy": [("self.__class__", TERMINAL_CTOR)],
    "myst_parser.mdit_to_docutils.base:DocutilsRenderer.render_restructuredtext": [("MockRSTParser().parse", MOCK_RST_PARSE)],
    "myst_parser.mocking:MockRSTParser.parse": [("super().parse", RST_PARSE)],
}

# Methods of the mocks that an external directive / role body may call back.
MOCK_CLASSES = ("myst_parser.mocking:MockState", "myst_parser.mocking:MockStateMachine", "myst_parser.mocking:MockInliner")


class Special:
    def __init__(self, kind: str, targets: list[FunctionInfo], text: str):
        self.kind = kind
        self.targets = targets
        self.text = text

    def __repr__(self):
        return f"<special {self.kind} {len(self.targets)}>"


class CallGraph:
    def __init__(self, corpus: Corpus):
        self.c = corpus
        self._attr_types: dict[str, dict[str, object]] = {}
        self._local_types: dict[str, dict[str, object]] = {}
        self._targets: dict[int, list] = {}
        self._method_index: dict[str, list[FunctionInfo]] | None = None
        self._callers: dict[str, list[tuple[FunctionInfo, ast.Call]]] | None = None
        self._callees: dict[str, list] = {}

    # -- annotations -> classes ----------------------------------------------
    def ann_class(self, ann: ast.expr | None, mod) -> tuple[str, ClassInfo] | None:
        """('is', C) or ('iter', C) for a package class named by an annotation."""
        if ann is None:
            return None
        if isinstance(ann, ast.Constant) and isinstance(ann.value, str):
            try:
                ann = ast.parse(ann.value, mode="eval").body
            except SyntaxError:
                return None
        if isinstance(ann, ast.BinOp) and isinstance(ann.op, ast.BitOr):
            return self.ann_class(ann.left, mod) or self.ann_class(ann.right, mod)
        if isinstance(ann, (ast.Name, ast.Attribute)):
            d = dotted(ann)
            ci = self.c.find_class(mod.resolve(d)) if d else None
            return ("is", ci) if ci else None
        if isinstance(ann, ast.Subscript):
            head = dotted(ann.value) or ""
            head = head.rsplit(".", 1)[-1]
            inner = ann.slice
            if head in ("Optional", "Union", "cast"):
                elts = inner.elts if isinstance(inner, ast.Tuple) else [inner]
                for e in elts:
                    r = self.ann_class(e, mod)
                    if r:
                        return r
                return None
            if head in ("list", "List", "Iterator", "Iterable", "Sequence", "Generator", "deque", "set", "tuple"):
                e = inner.elts[0] if isinstance(inner, ast.Tuple) and inner.elts else inner
                r = self.ann_class(e, mod)
                return ("iter", r[1]) if r and r[0] == "is" else None
            if head == "type":
                r = self.ann_class(inner, mod)
                return ("type", r[1]) if r and r[0] == "is" else None
        return None

    def class_attr_types(self, ci: ClassInfo) -> dict[str, object]:
        """attr -> ('is'|'iter', ClassInfo) from assignments/annotations in the class."""
        if ci.fq in self._attr_types:
            return self._attr_types[ci.fq]
        out: dict[str, object] = {}
        self._attr_types[ci.fq] = out
        for c in reversed(self.c.mro(ci)):
            mod = c.module
            for st in c.node.body:
                if isinstance(st, ast.AnnAssign) and isinstance(st.target, ast.Name):
                    r = self.ann_class(st.annotation, mod)
                    if r:
                        out[st.target.id] = r
            for m in c.methods.values():
                if "property" in m.decorators():
                    r = self.ann_class(getattr(m.node, "returns", None), mod)
                    if r:
                        out[m.name] = r
                for n in walk_local(m.node):
                    tgt = val = ann = None
                    if isinstance(n, ast.Assign) and len(n.targets) == 1:
                        tgt, val = n.targets[0], n.value
                    elif isinstance(n, ast.AnnAssign):
                        tgt, val, ann = n.target, n.value, n.annotation
                    if isinstance(tgt, ast.Attribute) and isinstance(tgt.value, ast.Name) and tgt.value.id == "self":
                        r = self.ann_class(ann, mod) if ann is not None else None
                        if r is None and val is not None:
                            r = self.expr_type(val, m)
                        if r and tgt.attr not in out:
                            out[tgt.attr] = r
        return out

    def func_class(self, fi: FunctionInfo) -> ClassInfo | None:
        f = fi
        while f is not None:
            if f.cls is not None:
                return f.cls
            f = f.parent_func
        return None

    def local_types(self, fi: FunctionInfo) -> dict[str, object]:
        if fi.fq in self._local_types:
            return self._local_types[fi.fq]
        out: dict[str, object] = {}
        self._local_types[fi.fq] = out
        mod = fi.module
        if fi.parent_func is not None:
            out.update(self.local_types(fi.parent_func))
        a = fi.node.args
        allargs = a.posonlyargs + a.args + a.kwonlyargs
        defaults = dict(zip([x.arg for x in reversed(a.posonlyargs + a.args)], reversed(a.defaults)))
        defaults.update({k.arg: d for k, d in zip(a.kwonlyargs, a.kw_defaults) if d is not None})
        for x in allargs:
            r = self.ann_class(x.annotation, mod)
            if r:
                out[x.arg] = r
            elif x.arg in defaults:
                d = dotted(defaults[x.arg])
                ci = self.c.find_class(mod.resolve(d)) if d else None
                if ci:
                    out[x.arg] = ("type", ci)
        cls = self.func_class(fi)
        if cls is not None and fi.params and fi.params[0] == "self" and fi.cls is not None:
            out["self"] = ("is", cls)
        if isinstance(fi.node, ast.Lambda):
            return out
        for _ in range(2):
            for n in fi.local_nodes():
                if isinstance(n, ast.AnnAssign) and isinstance(n.target, ast.Name):
                    r = self.ann_class(n.annotation, mod)
                    if r:
                        out[n.target.id] = r
                elif isinstance(n, ast.Assign) and len(n.targets) == 1 and isinstance(n.targets[0], ast.Name):
                    r = self.expr_type(n.value, fi, out)
                    if r and n.targets[0].id not in out:
                        out[n.targets[0].id] = r
                elif isinstance(n, (ast.For, ast.comprehension)) and isinstance(n.target, ast.Name):
                    r = self.expr_type(n.iter, fi, out)
                    if r and r[0] == "iter" and n.target.id not in out:
                        out[n.target.id] = ("is", r[1])
                    elif r and r[0] == "is" and n.target.id not in out:
                        it = self.c.lookup_method(r[1], "__iter__")
                        if it is not None:
                            rr = self.ann_class(getattr(it.node, "returns", None), it.module)
                            if rr and rr[0] == "iter":
                                out[n.target.id] = ("is", rr[1])
                elif isinstance(n, ast.withitem) and isinstance(n.optional_vars, ast.Name):
                    r = self.expr_type(n.context_expr, fi, out)
                    if r and n.optional_vars.id not in out:
                        out[n.optional_vars.id] = r
        return out

    def expr_type(self, e: ast.expr, fi: FunctionInfo, env: dict | None = None):
        """('is'|'iter'|'type', ClassInfo) or None."""
        if env is None:
            env = self.local_types(fi)
        mod = fi.module
        if isinstance(e, ast.Name):
            if e.id in env:
                return env[e.id]
            ci = self.c.find_class(mod.resolve(e.id))
            return ("type", ci) if ci else None
        if isinstance(e, ast.Attribute):
            base = self.expr_type(e.value, fi, env)
            if base and base[0] == "is":
                return self.class_attr_types(base[1]).get(e.attr)
            d = dotted(e)
            if d:
                ci = self.c.find_class(mod.resolve(d))
                if ci:
                    return ("type", ci)
            return None
        if isinstance(e, ast.Call):
            if dotted(e.func) == "cast" and len(e.args) == 2:
                return self.ann_class(e.args[0], mod)
            ft = self.expr_type(e.func, fi, env) if isinstance(e.func, (ast.Name, ast.Attribute)) else None
            if ft and ft[0] == "type":
                return ("is", ft[1])
            for t in self.resolve_call(e, fi, _typing=True):
                if isinstance(t, FunctionInfo) and not isinstance(t.node, ast.Lambda):
                    r = self.ann_class(t.node.returns, t.module)
                    if r:
                        return r
            return None
        if isinstance(e, ast.Subscript):
            base = self.expr_type(e.value, fi, env)
            if base and base[0] == "iter" and not isinstance(e.slice, ast.Slice):
                return ("is", base[1])
            if base and base[0] == "iter":
                return base
            if base and base[0] == "is":
                gi = self.c.lookup_method(base[1], "__getitem__")
                if gi is not None:
                    return self.ann_class(gi.node.returns, gi.module)
            return None
        if isinstance(e, ast.IfExp):
            return self.expr_type(e.body, fi, env) or self.expr_type(e.orelse, fi, env)
        if isinstance(e, ast.BoolOp):
            for v in e.values:
                r = self.expr_type(v, fi, env)
                if r:
                    return r
        return None

    # -- resolution -------------------------------------------------------------
    def method_index(self) -> dict[str, list[FunctionInfo]]:
        if self._method_index is None:
            idx: dict[str, list[FunctionInfo]] = {}
            for ci in self.c.all_classes():
                for n, m in ci.methods.items():
                    idx.setdefault(n, []).append(m)
            self._method_index = idx
        return self._method_index

    def ctor_targets(self, ci: ClassInfo) -> list:
        out: list = []
        for name in ("__init__", "__post_init__"):
            m = self.c.lookup_method(ci, name)
            if m is not None:
                out.append(m)
        if not out:
            ext = self.c.external_bases(ci)
            out.append(External((ext[0] if ext else "object") + ".__init__"))
        return out

    def _local_callable(self, name: str, fi: FunctionInfo):
        """nested def or lambda bound to ``name`` in fi or an enclosing function."""
        f = fi
        while f is not None:
            q = f"{f.qualname}.{name}"
            if q in f.module.functions:
                return [f.module.functions[q]]
            lam = self._lambda_bindings(f).get(name)
            if lam:
                return lam
            f = f.parent_func
        return None

    def _lambda_bindings(self, f: FunctionInfo) -> dict[str, list[FunctionInfo]]:
        b = f.__dict__.get("_lambda_bindings")
        if b is None:
            b = {}
            for n in f.local_nodes():
                if isinstance(n, ast.Assign):
                    for t in n.targets:
                        if isinstance(t, ast.Name):
                            for v in ast.walk(n.value):
                                if isinstance(v, ast.Lambda) and hasattr(v, "_fi"):
                                    b.setdefault(t.id, []).append(v._fi)
            f.__dict__["_lambda_bindings"] = b
        return b

    def special_for(self, call: ast.Call, fi: FunctionInfo) -> Special | None:
        specs = SPECIAL_EDGES.get(fi.fq)
        if not specs:
            return None
        text = ast.unparse(call.func)
        for prefix, kind in specs:
            if text == prefix or text.startswith(prefix) and (prefix.endswith(("[", "(")) or text == prefix):
                return Special(kind, self.special_targets(kind, fi), text)
        return None

    def special_targets(self, kind: str, fi: FunctionInfo) -> list[FunctionInfo]:
        c = self.c
        if kind == RENDER_DISPATCH:
            base = c.cls("mdit_to_docutils.base:DocutilsRenderer")
            out = []
            for ci in [base] + c.subclasses(base):
                for n, m in ci.methods.items():
                    if n.startswith("render_") and n != "render_children":
                        out.append(m)
            return out
        if kind == VALIDATORS:
            out = []
            for m in (c.mod("config.main"), c.mod("config.dc_validators")):
                for q, f in m.functions.items():
                    if q.startswith("check_") or q.endswith("._validator") or q in ("any_", "is_callable"):
                        out.append(f)
            return out
        if kind == WARNING_CB:
            out = []
            for fq in ("parsers.docutils_:Parser.parse", "parsers.sphinx_:MystParser.parse"):
                f = c.func(fq)
                out += [x for x in f.module.functions.values() if x.parent_func == f and x.is_lambda]
            return out
        if kind == DIRECTIVE_RUN:
            out = [c.func("mocking:MockIncludeDirective.run"), c.func("sphinx_ext.directives:FigureMarkdown.run")]
            return out + self.mock_callbacks(("myst_parser.mocking:MockState", "myst_parser.mocking:MockStateMachine", "myst_parser.mocking:MockInliner"))
        if kind == ROLE_FUNC:
            return [c.func("sphinx_ext.directives:SubstitutionReferenceRole.run")] + self.mock_callbacks(("myst_parser.mocking:MockInliner",))
        if kind == MD_RENDER:
            # MarkdownIt.render -> <renderer>.render; escape analysis picks the entry's concrete class
            return self.c.method_impls(c.cls("mdit_to_docutils.base:DocutilsRenderer"), "render")
        if kind == TERMINAL_CTOR:
            base = c.cls("parsers.parse_html:TerminalElement")
            return [m for ci in [base] + c.subclasses(base) for m in self.ctor_targets(ci) if isinstance(m, FunctionInfo)]
        if kind == ELEMENT_CTOR:
            base = c.cls("parsers.parse_html:Element")
            return [m for ci in [base] + c.subclasses(base) for m in self.ctor_targets(ci) if isinstance(m, FunctionInfo)]
        if kind == MOCK_RST_PARSE:
            return [c.func("mocking:MockRSTParser.parse")]
        return []

    def mock_callbacks(self, classes) -> list[FunctionInfo]:
        out = []
        for fq in classes:
            ci = self.c.cls(fq.replace("myst_parser.", "", 1))
            for n, m in ci.methods.items():
                if n == "__init__":
                    continue
                if n.startswith("_") and n != "__getattr__":
                    continue
                out.append(m)
        return out

    def resolve_call(self, call: ast.Call, fi: FunctionInfo, _typing: bool = False) -> list:
        """Targets of a call: FunctionInfo | External | Unresolved | Special."""
        key = id(call)
        if not _typing and key in self._targets:
            return self._targets[key]
        res = self._resolve(call, fi, _typing)
        if not _typing:
            self._targets[key] = res
        return res

    def _resolve(self, call: ast.Call, fi: FunctionInfo, _typing: bool) -> list:
        c = self.c
        mod = fi.module
        if not _typing:
            sp = self.special_for(call, fi)
            if sp is not None:
                return [sp]
        f = call.func
        if isinstance(f, ast.Name):
            loc = self._local_callable(f.id, fi)
            if loc:
                return list(loc)
            if not _typing:
                env = self.local_types(fi)
                t = env.get(f.id)
                if t and t[0] == "type":
                    return self.ctor_targets(t[1])
            pf = fi
            while pf is not None:
                if f.id in pf.params:
                    return [Unresolved(f"param:{f.id}")]
                pf = pf.parent_func
            full = mod.resolve(f.id)
            ci = c.find_class(full)
            if ci is not None:
                return self.ctor_targets(ci)
            fn = c.find_function(full)
            if fn is not None:
                return [fn]
            if full == f.id and f.id in BUILTIN_NAMES:
                return [External(f"builtins.{f.id}")]
            return [External(full)]
        if isinstance(f, ast.Attribute):
            m = f.attr
            d = dotted(f)
            if d and d.startswith("super()."):
                cls = self.func_class(fi)
                if cls is not None:
                    for b in cls.bases:
                        bc = c.find_class(b)
                        if bc is not None:
                            t = c.lookup_method(bc, m)
                            if t is not None:
                                return [t]
                    ext = c.external_bases(cls)
                    return [External(f"{ext[0] if ext else 'object'}.{m}")]
            if d:
                full = mod.resolve(d)
                head = d.split(".")[0]
                if head in mod.imports or head in mod.classes:
                    ci = c.find_class(full)
                    if ci is not None:
                        return self.ctor_targets(ci)
                    fn = c.find_function(full)
                    if fn is not None:
                        return [fn]
                    if head in mod.imports and not _typing:
                        # receiver may still be a typed local shadowing nothing; imported name wins
                        return [External(full)]
            if _typing:
                rt = self.expr_type(f.value, fi, self._local_types.get(fi.fq, {})) if fi.fq in self._local_types else None
            else:
                rt = self.expr_type(f.value, fi)
            if rt and rt[0] in ("is", "type"):
                impls = c.method_impls(rt[1], m)
                if impls:
                    return list(impls)
                ga = c.lookup_method(rt[1], "__getattr__")
                attrs = self.class_attr_types(rt[1])
                if m in attrs:
                    return [Unresolved(f"attr-call:{rt[1].name}.{m}")]
                ext = c.external_bases(rt[1])
                if ext:
                    return [External(f"{ext[0]}.{m}")]
                if ga is not None:
                    return [ga]
                return [Unresolved(f"{rt[1].name}.{m}")]
            if m not in _BUILTIN_METHOD_NAMES:
                cands = self.method_index().get(m)
                if cands:
                    return list(cands)
            return [Unresolved(f"?.{m}")]
        if isinstance(f, ast.Call):
            # e.g. findall(node)(nodes.reference), f.metadata.get(...)(val)
            return [Unresolved("call-result")]
        if isinstance(f, ast.Subscript):
            return [Unresolved("subscript:" + ast.unparse(f)[:40])]
        if isinstance(f, ast.Lambda) and hasattr(f, "_fi"):
            return [f._fi]
        return [Unresolved(type(f).__name__)]

    # -- whole graph --------------------------------------------------------
    def callees(self, fi: FunctionInfo) -> list[tuple[ast.Call, list]]:
        cached = self._callees.get(fi.fq)
        if cached is not None:
            return cached
        out = []
        self._callees[fi.fq] = out
        node = fi.node
        for call in calls_in(node, into_lambdas=False) if not isinstance(node, ast.Lambda) else calls_in(node.body) if not isinstance(node.body, ast.Call) else calls_in(node.body):
            out.append((call, self.resolve_call(call, fi)))
        return out

    def flat_targets(self, targets: list) -> list[FunctionInfo]:
        out = []
        for t in targets:
            if isinstance(t, FunctionInfo):
                out.append(t)
            elif isinstance(t, Special):
                out.extend(t.targets)
        return out

    def callers(self) -> dict[str, list[tuple[FunctionInfo, ast.Call]]]:
        if self._callers is None:
            idx: dict[str, list[tuple[FunctionInfo, ast.Call]]] = {}
            for fi in self.c.all_functions():
                for call, targets in self.callees(fi):
                    for t in self.flat_targets(targets):
                        idx.setdefault(t.fq, []).append((fi, call))
            self._callers = idx
        return self._callers

    def reachable(self, entries: list[FunctionInfo], *, stop=None) -> dict[str, list[str]]:
        """fq -> one witness chain of fqs from an entry."""
        seen: dict[str, list[str]] = {}
        work = [(e, [e.fq]) for e in entries]
        while work:
            fi, chain = work.pop()
            if fi.fq in seen:
                continue
            seen[fi.fq] = chain
            if stop is not None and stop(fi):
                continue
            # lambdas and nested functions defined inside are reachable when called;
            # nested functions that are never called by name (callbacks) count as reachable too
            for q, inner in fi.module.functions.items():
                if inner.parent_func == fi and inner.fq not in seen:
                    work.append((inner, chain + [inner.fq]))
            for call, targets in self.callees(fi):
                for t in self.flat_targets(targets):
                    if t.fq not in seen:
                        work.append((t, chain + [t.fq]))
        return seen


def get_callgraph(corpus: Corpus) -> CallGraph:
    return corpus.cache("callgraph", lambda: CallGraph(corpus))
