"""E1/E2 - corpus and symbols.

Parses every ``*.py`` under ``<repo>/myst_parser`` (never imports it), keeps
parent links, import maps, functions, classes and literal constants.  Library
("sibling") sources are parsed on demand from site-packages, again without
importing them.
"""

from __future__ import annotations

import ast
import os
import sys
from dataclasses import dataclass, field
from pathlib import Path

REPO = Path(os.environ.get("MYSTSA_REPO", "/repo"))
PKG = "myst_parser"


class AnchorMissing(Exception):
    """An anchored symbol (function, class, constant, sibling file) vanished."""


class Unsupported(Exception):
    """The code left the statement subset an extractor understands."""


def site_packages() -> list[Path]:
    out: list[Path] = []
    env = os.environ.get("MYSTSA_SITE")
    if env:
        out.append(Path(env))
    for base in ("/venv/lib",):
        b = Path(base)
        if b.is_dir():
            for p in sorted(b.glob("python*/site-packages")):
                out.append(p)
    return out


def stdlib_dir() -> Path:
    return Path(os.__file__).parent


# ---------------------------------------------------------------------------


@dataclass
class FunctionInfo:
    module: "Module"
    qualname: str  # e.g. "DocutilsRenderer.render_hr", "f.<inner>"
    node: ast.AST  # FunctionDef | AsyncFunctionDef | Lambda
    cls: "ClassInfo | None" = None
    parent_func: "FunctionInfo | None" = None

    @property
    def fq(self) -> str:
        return f"{self.module.name}:{self.qualname}"

    @property
    def name(self) -> str:
        return self.qualname.rsplit(".", 1)[-1]

    @property
    def is_lambda(self) -> bool:
        return isinstance(self.node, ast.Lambda)

    @property
    def body(self) -> list[ast.stmt]:
        if isinstance(self.node, ast.Lambda):
            return [ast.Expr(self.node.body)]
        return self.node.body

    @property
    def params(self) -> list[str]:
        a = self.node.args
        names = [x.arg for x in a.posonlyargs + a.args]
        if a.vararg:
            names.append(a.vararg.arg)
        names += [x.arg for x in a.kwonlyargs]
        if a.kwarg:
            names.append(a.kwarg.arg)
        return names

    def decorators(self) -> list[str]:
        if isinstance(self.node, ast.Lambda):
            return []
        return [dotted(d.func if isinstance(d, ast.Call) else d) or "" for d in self.node.decorator_list]

    def is_generator(self) -> bool:
        for n in walk_local(self.node):
            if isinstance(n, (ast.Yield, ast.YieldFrom)):
                return True
        return False

    def site(self) -> str:
        return f"{self.module.rel}:{self.node.lineno}"

    def local_nodes(self) -> list:
        """Cached ``walk_local`` (lambdas and comprehensions entered, nested defs not)."""
        ln = self.__dict__.get("_local_nodes")
        if ln is None:
            ln = list(walk_local(self.node))
            self.__dict__["_local_nodes"] = ln
        return ln

    def __hash__(self) -> int:
        return hash(self.fq)

    def __eq__(self, other) -> bool:
        return isinstance(other, FunctionInfo) and other.fq == self.fq

    def __repr__(self) -> str:
        return f"<fn {self.fq}>"


@dataclass
class ClassInfo:
    module: "Module"
    name: str
    node: ast.ClassDef
    bases: list[str] = field(default_factory=list)  # resolved dotted names
    methods: dict[str, FunctionInfo] = field(default_factory=dict)

    @property
    def fq(self) -> str:
        return f"{self.module.name}:{self.name}"

    def __hash__(self) -> int:
        return hash(self.fq)

    def __eq__(self, other) -> bool:
        return isinstance(other, ClassInfo) and other.fq == self.fq

    def __repr__(self) -> str:
        return f"<class {self.fq}>"


class Module:
    def __init__(self, name: str, path: Path, rel: str, src: str):
        self.name = name
        self.path = path
        self.rel = rel
        self.src = src
        self.lines = src.splitlines()
        self.tree = ast.parse(src, filename=str(path))
        self.imports: dict[str, str] = {}
        self.star_imports: list[str] = []
        self.functions: dict[str, FunctionInfo] = {}
        self.classes: dict[str, ClassInfo] = {}
        self.const_nodes: dict[str, ast.expr] = {}
        self._index()

    # -- indexing ---------------------------------------------------------
    def _index(self) -> None:
        for parent in ast.walk(self.tree):
            for child in ast.iter_child_nodes(parent):
                child._parent = parent  # type: ignore[attr-defined]
                child._mod = self  # type: ignore[attr-defined]
        self.tree._parent = None  # type: ignore[attr-defined]
        self.tree._mod = self  # type: ignore[attr-defined]
        pkg_parts = self.name.split(".")
        is_pkg = self.path.name == "__init__.py"
        for node in ast.walk(self.tree):
            if isinstance(node, ast.Import):
                for a in node.names:
                    if a.asname:
                        self.imports[a.asname] = a.name
                    else:
                        self.imports[a.name.split(".")[0]] = a.name.split(".")[0]
            elif isinstance(node, ast.ImportFrom):
                if node.level:
                    base = pkg_parts if is_pkg else pkg_parts[:-1]
                    base = base[: len(base) - (node.level - 1)]
                    mod = ".".join(base + ([node.module] if node.module else []))
                else:
                    mod = node.module or ""
                for a in node.names:
                    if a.name == "*":
                        self.star_imports.append(mod)
                    else:
                        self.imports[a.asname or a.name] = f"{mod}.{a.name}"
        self._index_scope(self.tree.body, "", None, None)
        for st in self.tree.body:
            if isinstance(st, ast.Assign) and len(st.targets) == 1 and isinstance(st.targets[0], ast.Name):
                self.const_nodes[st.targets[0].id] = st.value
            elif isinstance(st, ast.AnnAssign) and isinstance(st.target, ast.Name) and st.value is not None:
                self.const_nodes[st.target.id] = st.value

    def _index_scope(self, body, prefix: str, cls: ClassInfo | None, pf: FunctionInfo | None) -> None:
        for node in body:
            self._index_node(node, prefix, cls, pf)

    def _index_node(self, node, prefix, cls, pf) -> None:
        if isinstance(node, (ast.FunctionDef, ast.AsyncFunctionDef)):
            q = f"{prefix}{node.name}"
            fi = FunctionInfo(self, q, node, cls if pf is None else None, pf)
            # a later definition of the same name wins at runtime; keep last
            self.functions[q] = fi
            node._fi = fi  # type: ignore[attr-defined]
            if cls is not None and pf is None:
                cls.methods[node.name] = fi
            self._index_inner(node, q + ".", fi)
        elif isinstance(node, ast.ClassDef):
            q = f"{prefix}{node.name}"
            ci = ClassInfo(self, q, node, [self.resolve(dotted(b) or "") for b in node.bases])
            self.classes[q] = ci
            node._ci = ci  # type: ignore[attr-defined]
            for st in node.body:
                self._index_node(st, q + ".", ci, None)
        elif isinstance(node, (ast.If, ast.Try, ast.With, ast.For, ast.While)):
            for fld in ("body", "orelse", "finalbody"):
                for st in getattr(node, fld, []):
                    self._index_node(st, prefix, cls, pf)
            for h in getattr(node, "handlers", []):
                for st in h.body:
                    self._index_node(st, prefix, cls, pf)
        else:
            # lambdas at module/class level
            if pf is None:
                self._index_lambdas(node, prefix, None)

    def _index_inner(self, fnode, prefix: str, fi: FunctionInfo) -> None:
        """Index nested defs, classes and lambdas inside a function."""
        counter = [0]

        def rec(n):
            for c in ast.iter_child_nodes(n):
                if isinstance(c, (ast.FunctionDef, ast.AsyncFunctionDef)):
                    q = f"{prefix}{c.name}"
                    inner = FunctionInfo(self, q, c, None, fi)
                    self.functions[q] = inner
                    c._fi = inner  # type: ignore[attr-defined]
                    self._index_inner(c, q + ".", inner)
                elif isinstance(c, ast.ClassDef):
                    q = f"{prefix}{c.name}"
                    ci = ClassInfo(self, q, c, [self.resolve(dotted(b) or "") for b in c.bases])
                    self.classes[q] = ci
                    c._ci = ci  # type: ignore[attr-defined]
                    for st in c.body:
                        self._index_node(st, q + ".", ci, None)
                elif isinstance(c, ast.Lambda):
                    counter[0] += 1
                    q = f"{prefix}<lambda{counter[0]}>"
                    inner = FunctionInfo(self, q, c, None, fi)
                    self.functions[q] = inner
                    c._fi = inner  # type: ignore[attr-defined]
                    rec(c)
                else:
                    rec(c)

        rec(fnode)

    def _index_lambdas(self, node, prefix, pf) -> None:
        for c in ast.walk(node):
            if isinstance(c, ast.Lambda) and not hasattr(c, "_fi"):
                q = f"{prefix}<lambda@{c.lineno}>"
                inner = FunctionInfo(self, q, c, None, pf)
                self.functions[q] = inner
                c._fi = inner  # type: ignore[attr-defined]

    # -- queries ----------------------------------------------------------
    def resolve(self, name: str) -> str:
        """Resolve a dotted name used in this module to a fully dotted name."""
        if not name:
            return name
        head, _, rest = name.partition(".")
        if head in self.imports:
            base = self.imports[head]
            return f"{base}.{rest}" if rest else base
        if head in self.functions or head in self.classes or head in self.const_nodes:
            return f"{self.name}.{name}"
        return name

    def func(self, qualname: str) -> FunctionInfo:
        try:
            return self.functions[qualname]
        except KeyError:
            raise AnchorMissing(f"function {self.name}:{qualname} not found") from None

    def cls(self, name: str) -> ClassInfo:
        try:
            return self.classes[name]
        except KeyError:
            raise AnchorMissing(f"class {self.name}:{name} not found") from None

    def const(self, name: str):
        """Literal value of a module-level constant (with + and references)."""
        if name not in self.const_nodes:
            raise AnchorMissing(f"constant {self.name}:{name} not found")
        return self.eval_const(self.const_nodes[name])

    def eval_const(self, node: ast.expr, _depth: int = 0):
        if _depth > 20:
            raise Unsupported("constant recursion")
        if isinstance(node, ast.Constant):
            return node.value
        if isinstance(node, ast.Name):
            if node.id in self.const_nodes:
                return self.eval_const(self.const_nodes[node.id], _depth + 1)
            raise Unsupported(f"non-constant name {node.id}")
        if isinstance(node, ast.BinOp) and isinstance(node.op, ast.Add):
            return self.eval_const(node.left, _depth + 1) + self.eval_const(node.right, _depth + 1)
        if isinstance(node, (ast.Tuple, ast.List, ast.Set)):
            vals = [self.eval_const(e, _depth + 1) for e in node.elts]
            return tuple(vals) if isinstance(node, ast.Tuple) else (list(vals) if isinstance(node, ast.List) else set(vals))
        if isinstance(node, ast.Dict):
            return {
                self.eval_const(k, _depth + 1): self.eval_const(v, _depth + 1)
                for k, v in zip(node.keys, node.values)
            }
        if isinstance(node, ast.UnaryOp) and isinstance(node.op, ast.USub):
            return -self.eval_const(node.operand, _depth + 1)
        if isinstance(node, ast.Call) and dotted(node.func) in ("set", "frozenset", "tuple", "list") and len(node.args) <= 1:
            ctor = {"set": set, "frozenset": frozenset, "tuple": tuple, "list": list}[dotted(node.func)]
            return ctor(self.eval_const(node.args[0], _depth + 1)) if node.args else ctor()
        raise Unsupported(f"not a literal: {ast.dump(node)[:80]}")

    def site(self, node: ast.AST) -> str:
        return f"{self.rel}:{getattr(node, 'lineno', 0)}"


# ---------------------------------------------------------------------------


class Corpus:
    """All package modules of one (possibly overlaid) tree."""

    def __init__(self, root: Path, modules: dict[str, Module]):
        self.root = root
        self.modules = modules
        self.by_rel = {m.rel: m for m in modules.values()}
        self._cache: dict = {}
        self._siblings: dict[str, Module] = {}

    @classmethod
    def load(cls, root: Path | None = None, overlay: dict[str, str] | None = None, base: "Corpus | None" = None) -> "Corpus":
        root = Path(root or REPO)
        overlay = overlay or {}
        pkgdir = root / PKG
        if not pkgdir.is_dir():
            raise AnchorMissing(f"package directory {pkgdir} not found")
        modules: dict[str, Module] = {}
        for path in sorted(pkgdir.rglob("*.py")):
            rel = str(path.relative_to(root))
            parts = list(path.relative_to(root).with_suffix("").parts)
            if parts[-1] == "__init__":
                parts = parts[:-1]
            name = ".".join(parts)
            if rel in overlay:
                modules[name] = Module(name, path, rel, overlay[rel])
            elif base is not None and name in base.modules and base.root == root:
                modules[name] = base.modules[name]
            else:
                modules[name] = Module(name, path, rel, path.read_text(encoding="utf8"))
        for rel in overlay:
            if rel not in {m.rel for m in modules.values()}:
                raise AnchorMissing(f"overlay file {rel} not in package")
        return cls(root, modules)

    # -- lookup -----------------------------------------------------------
    def mod(self, name: str) -> Module:
        if not name.startswith(PKG):
            name = f"{PKG}.{name}" if name else PKG
        try:
            return self.modules[name]
        except KeyError:
            raise AnchorMissing(f"module {name} not found") from None

    def func(self, fq: str) -> FunctionInfo:
        """``"mdit_to_docutils.base:DocutilsRenderer.render_hr"``"""
        m, _, q = fq.partition(":")
        return self.mod(m).func(q)

    def has_func(self, fq: str) -> bool:
        try:
            self.func(fq)
            return True
        except AnchorMissing:
            return False

    def cls(self, fq: str) -> ClassInfo:
        m, _, q = fq.partition(":")
        return self.mod(m).cls(q)

    def all_functions(self) -> list[FunctionInfo]:
        out = []
        for m in self.modules.values():
            out.extend(m.functions.values())
        return out

    def all_classes(self) -> list[ClassInfo]:
        out = []
        for m in self.modules.values():
            out.extend(m.classes.values())
        return out

    def find_class(self, dotted_name: str) -> ClassInfo | None:
        """Find a package class from a fully dotted name (follows re-exports)."""
        seen = set()
        while dotted_name and dotted_name not in seen:
            seen.add(dotted_name)
            modname, _, cname = dotted_name.rpartition(".")
            m = self.modules.get(modname)
            if m is None:
                return None
            if cname in m.classes:
                return m.classes[cname]
            if cname in m.imports:
                dotted_name = m.imports[cname]
                continue
            return None
        return None

    def find_function(self, dotted_name: str) -> FunctionInfo | None:
        seen = set()
        while dotted_name and dotted_name not in seen:
            seen.add(dotted_name)
            modname, _, fname = dotted_name.rpartition(".")
            m = self.modules.get(modname)
            if m is None:
                # maybe Class.method
                modname2, _, cname = modname.rpartition(".")
                m2 = self.modules.get(modname2)
                if m2 is not None and cname in m2.classes:
                    return self.lookup_method(m2.classes[cname], fname)
                return None
            if fname in m.functions:
                return m.functions[fname]
            if fname in m.imports:
                dotted_name = m.imports[fname]
                continue
            return None
        return None

    # -- class hierarchy --------------------------------------------------
    def mro(self, ci: ClassInfo) -> list[ClassInfo]:
        """Package-internal linearisation (depth-first, good enough here)."""
        out: list[ClassInfo] = []
        seen = set()

        def rec(c: ClassInfo):
            if c.fq in seen:
                return
            seen.add(c.fq)
            out.append(c)
            for b in c.bases:
                bc = self.find_class(b)
                if bc is not None:
                    rec(bc)

        rec(ci)
        return out

    def external_bases(self, ci: ClassInfo) -> list[str]:
        out = []
        for c in self.mro(ci):
            for b in c.bases:
                if self.find_class(b) is None:
                    out.append(b)
        return out

    def subclasses(self, ci: ClassInfo) -> list[ClassInfo]:
        out = []
        for c in self.all_classes():
            if c.fq != ci.fq and any(x.fq == ci.fq for x in self.mro(c)):
                out.append(c)
        return out

    def lookup_method(self, ci: ClassInfo, name: str) -> FunctionInfo | None:
        for c in self.mro(ci):
            if name in c.methods:
                return c.methods[name]
        return None

    def method_impls(self, ci: ClassInfo, name: str) -> list[FunctionInfo]:
        """Definition visible from ``ci`` plus overrides in subclasses."""
        out = []
        m = self.lookup_method(ci, name)
        if m is not None:
            out.append(m)
        for sc in self.subclasses(ci):
            if name in sc.methods and sc.methods[name] not in out:
                out.append(sc.methods[name])
        return out

    # -- siblings -----------------------------------------------------------
    def sibling(self, rel: str) -> Module:
        """Parse a library source, e.g. ``yaml/scanner.py`` or ``stdlib:html/parser.py``."""
        if rel in self._siblings:
            return self._siblings[rel]
        cands: list[Path] = []
        if rel.startswith("stdlib:"):
            cands.append(stdlib_dir() / rel[len("stdlib:"):])
        else:
            for sp in site_packages():
                cands.append(sp / rel)
        for p in cands:
            if p.is_file():
                name = rel.replace("stdlib:", "").removesuffix(".py").replace("/", ".")
                if name.endswith(".__init__"):
                    name = name[: -len(".__init__")]
                m = Module(name, p, rel, p.read_text(encoding="utf8"))
                self._siblings[rel] = m
                return m
        raise AnchorMissing(f"sibling source {rel} not found")

    def sibling_module(self, dotted_mod: str) -> Module | None:
        """Locate the source of a (non-package) module by dotted name."""
        rel = dotted_mod.replace(".", "/")
        for cand in (rel + ".py", rel + "/__init__.py"):
            try:
                return self.sibling(cand)
            except AnchorMissing:
                pass
            try:
                return self.sibling("stdlib:" + cand)
            except AnchorMissing:
                pass
        return None

    def cache(self, key, fn):
        if key not in self._cache:
            self._cache[key] = fn()
        return self._cache[key]


# ---------------------------------------------------------------------------
# ast helpers


def dotted(node: ast.AST | None) -> str | None:
    """``a.b.c`` for Name/Attribute chains (``super().x`` -> ``super().x``)."""
    if isinstance(node, ast.Name):
        return node.id
    if isinstance(node, ast.Attribute):
        base = dotted(node.value)
        if base is None:
            return None
        return f"{base}.{node.attr}"
    if isinstance(node, ast.Call) and isinstance(node.func, ast.Name) and node.func.id == "super" and not node.args:
        return "super()"
    return None


def unparse(node: ast.AST) -> str:
    try:
        return " ".join(ast.unparse(node).split())
    except Exception:  # pragma: no cover
        return ast.dump(node)[:120]


def short(node: ast.AST, n: int = 110) -> str:
    s = unparse(node)
    return s if len(s) <= n else s[: n - 3] + "..."


def parent(node: ast.AST) -> ast.AST | None:
    return getattr(node, "_parent", None)


def ancestors(node: ast.AST):
    p = parent(node)
    while p is not None:
        yield p
        p = parent(p)


def module_of(node: ast.AST) -> Module:
    return node._mod  # type: ignore[attr-defined]


def enclosing_function(node: ast.AST) -> FunctionInfo | None:
    for a in ancestors(node):
        if hasattr(a, "_fi"):
            return a._fi  # type: ignore[attr-defined]
    return None


def enclosing_stmt(node: ast.AST) -> ast.stmt:
    n = node
    while not isinstance(n, ast.stmt):
        n = parent(n)
        if n is None:
            raise ValueError("no enclosing statement")
    return n


def walk_local(fnode: ast.AST, *, into_lambdas: bool = True, into_comprehensions: bool = True):
    """Walk a function body without entering nested defs/classes."""
    stack = list(ast.iter_child_nodes(fnode))
    while stack:
        n = stack.pop()
        if isinstance(n, (ast.FunctionDef, ast.AsyncFunctionDef, ast.ClassDef)):
            # decorators/defaults are evaluated in the enclosing scope
            continue
        if isinstance(n, ast.Lambda) and not into_lambdas:
            continue
        yield n
        stack.extend(ast.iter_child_nodes(n))


def calls_in(node: ast.AST, **kw) -> list[ast.Call]:
    out = [n for n in walk_local(node, **kw) if isinstance(n, ast.Call)]
    if isinstance(node, ast.Call):
        out.append(node)
    out.sort(key=lambda c: (c.lineno, c.col_offset))
    return out


def call_name(call: ast.Call) -> str | None:
    return dotted(call.func)


def kwarg(call: ast.Call, name: str) -> ast.expr | None:
    for k in call.keywords:
        if k.arg == name:
            return k.value
    return None


def arg_or_kw(call: ast.Call, index: int, name: str) -> ast.expr | None:
    if len(call.args) > index and not any(isinstance(a, ast.Starred) for a in call.args[: index + 1]):
        return call.args[index]
    return kwarg(call, name)


def is_const(node: ast.AST | None, value=...) -> bool:
    if not isinstance(node, ast.Constant):
        return False
    return value is ... or node.value == value


def stmt_key(fi: FunctionInfo | None, node: ast.AST, n: int = 140) -> str:
    """Stable, line-free key of a construct."""
    where = fi.fq if fi is not None else module_of(node).name
    return f"{where}|{short(node, n)}"


def splice(src: str, node: ast.AST, new_text: str) -> str:
    """Replace the source segment of ``node`` by ``new_text``."""
    lines = src.splitlines(keepends=True)
    # ast offsets are utf8 byte offsets
    def off(line: int, col: int) -> int:
        pre = sum(len(l.encode("utf8")) for l in lines[: line - 1])
        return pre + col

    b = src.encode("utf8")
    s = off(node.lineno, node.col_offset)
    e = off(node.end_lineno, node.end_col_offset)
    return (b[:s] + new_text.encode("utf8") + b[e:]).decode("utf8")


def segment(src: str, node: ast.AST) -> str:
    return ast.get_source_segment(src, node) or ""
