"""Command line: ``./check <id> [--tier quick|thorough]``, ``./check --replay <file>``.

Exit codes: 0 property held on everything analysed (KNOWN-FINDING lines allowed),
1 VIOLATION, 2 ANALYSIS-ERROR (fail-closed, not a violation).
"""

from __future__ import annotations

import argparse
import importlib
import json
import os
import sys
import traceback
from dataclasses import dataclass, field
from pathlib import Path

from .corpus import REPO, AnchorMissing, Corpus, Unsupported
from .mutant import Mutant
from .report import VERIF, Report

PROPS = [f"C{i:02d}" for i in range(1, 21)]


def load_rules(prop: str):
    return importlib.import_module(f"mystsa.rules.{prop.lower()}")


def run_property(prop: str, corpus: Corpus, tier: str, quiet: bool = False) -> Report:
    mod = load_rules(prop)
    rep = Report(prop, tier, quiet=quiet)
    for m in corpus.modules.values():
        rep.saw_module(m.name)
    for fn in mod.RULES:
        rid = getattr(fn, "rule_id", fn.__name__)
        try:
            fn(corpus, rep, tier)
        except AnchorMissing as e:
            rep.error(rid, f"anchor missing: {e}")
        except Unsupported as e:
            rep.error(rid, f"unsupported construct: {e}")
        except Exception as e:  # never let a traceback look like a violation
            tb = traceback.extract_tb(e.__traceback__)[-1]
            rep.error(rid, f"checker exception {type(e).__name__}: {e} at {Path(tb.filename).name}:{tb.lineno}")
    return rep


def _run_mutant(args):
    prop, tier, mut, base_keys = args
    try:
        overlay = {mut.rel: mut.new_src, **mut.more}
        corpus = Corpus.load(REPO, overlay=overlay)
        rep = run_property(prop, corpus, "quick", quiet=True)
        rep._check_min_counts()
        fired = [
            v
            for v in rep.violations()
            if v.rule == mut.rule
            and (v.rule, v.key) not in base_keys
            and (not mut.expect or mut.expect in v.key or mut.expect in v.site or mut.expect in v.what)
        ]
        other_new = [v for v in rep.violations() if (v.rule, v.key) not in base_keys and v not in fired]
        return {
            "id": mut.id,
            "rule": mut.rule,
            "file": mut.rel,
            "fired": bool(fired),
            "report": fired[0].as_dict() if fired else None,
            "other_new": [f"{v.rule}|{v.key}" for v in other_new][:5],
            "errors": [f"{r}: {m}" for r, m in rep.errors][:3],
            "note": mut.note,
        }
    except SyntaxError as e:
        return {"id": mut.id, "rule": mut.rule, "file": mut.rel, "fired": False, "stale": f"mutant does not parse: {e}"}
    except Exception as e:
        return {"id": mut.id, "rule": mut.rule, "file": mut.rel, "fired": False, "stale": f"{type(e).__name__}: {e}"}


def selftest(prop: str, corpus: Corpus, rep: Report, tier: str) -> None:
    """Both-ways test: each mutant of the *current* tree must make its rule fire."""
    mod = load_rules(prop)
    gen = getattr(mod, "mutants", None)
    if gen is None:
        return
    muts: list[Mutant] = []
    stale: list[dict] = []
    try:
        for m in gen(corpus):
            if isinstance(m, Mutant):
                muts.append(m)
            else:  # (id, reason) for a mutant that could not be computed
                stale.append({"id": m[0], "stale": m[1]})
    except Exception as e:
        rep.note(f"mutant generation stopped: {type(e).__name__}: {e}")
    if tier == "quick":
        muts = [m for m in muts if m.canary]
    base_keys = {(v.rule, v.key) for v in rep.violations()}
    jobs = [(prop, tier, m, base_keys) for m in muts]
    results: list[dict] = []
    if len(jobs) > 2:
        import multiprocessing as mp

        with mp.get_context("fork").Pool(min(16, len(jobs))) as pool:
            results = pool.map(_run_mutant, jobs)
    else:
        results = [_run_mutant(j) for j in jobs]
    rep.selftest = results + stale
    missed = [r for r in results if not r["fired"] and "stale" not in r]
    n_stale = len(stale) + sum(1 for r in results if "stale" in r)
    if not rep.quiet:
        print(f"  self-test: {len(results)} mutant(s) of the current tree, {sum(1 for r in results if r['fired'])} detected, "
              f"{len(missed)} missed, {n_stale} not computable on this tree")
    for r in missed:
        # a miss is reported, it never changes the verdict on the real tree
        print(f"SELFTEST-MISS property={prop} mutant={r['id']} rule={r['rule']} {r.get('errors') or ''}")


def check(prop: str, tier: str) -> int:
    try:
        corpus = Corpus.load(REPO)
    except (AnchorMissing, SyntaxError, OSError) as e:
        print(f"ANALYSIS-ERROR property={prop} cannot load corpus: {e}")
        return 2
    mod = load_rules(prop)
    rep = run_property(prop, corpus, tier)
    if os.environ.get("MYSTSA_NO_SELFTEST") != "1":
        try:
            selftest(prop, corpus, rep, tier)
        except Exception as e:
            rep.note(f"self-test harness failed: {type(e).__name__}: {e}")
        if tier == "thorough":
            try:
                from .seedreg import benign_regression, regression

                regression(prop, rep)
                benign_regression(prop, rep)
            except Exception as e:
                rep.note(f"seeded-regression harness failed: {type(e).__name__}: {e}")
    meta = dict(mod.META)
    meta["checker_cmd"] = f"./check {prop} --tier {tier}"
    return rep.finish(meta, write=os.environ.get("MYSTSA_NOWRITE") != "1")


def replay(path: str) -> int:
    data = json.loads(Path(path).read_text())
    prop = data["property"]
    corpus = Corpus.load(REPO)
    rep = run_property(prop, corpus, "quick", quiet=True)
    hit = [v for v in rep.violations() if v.rule == data["rule"] and v.key == data["key"]]
    if not hit:
        print(f"finding no longer reproduced on the current tree: {data['rule']} {data['key']}")
        return 0
    v = hit[0]
    print(f"VIOLATION property={prop} replay={path}")
    print(f"    rule={v.rule} site={v.site}\n    key={v.key}\n    what={v.what}")
    for step in v.path:
        print(f"      via {step}")
    return 1


def main(argv=None) -> int:
    ap = argparse.ArgumentParser(prog="check")
    ap.add_argument("prop", nargs="?")
    ap.add_argument("--tier", default=os.environ.get("VERIF_TIER") or "quick", choices=["quick", "thorough"])
    ap.add_argument("--replay")
    ap.add_argument("--all", action="store_true")
    a = ap.parse_args(argv)
    if os.environ.get("VERIF_TIER") in ("quick", "thorough"):
        a.tier = os.environ["VERIF_TIER"]
    try:
        if a.replay:
            return replay(a.replay)
        if a.all:
            worst = 0
            for p in PROPS:
                try:
                    load_rules(p)
                except ModuleNotFoundError:
                    continue
                print(f"== {p}")
                worst = max(worst, check(p, a.tier))
            return worst
        if not a.prop:
            ap.error("property id required")
        return check(a.prop.upper(), a.tier)
    except Exception as e:
        traceback.print_exc()
        print(f"ANALYSIS-ERROR property={a.prop} checker crashed: {type(e).__name__}: {e}")
        return 2


if __name__ == "__main__":
    sys.exit(main())
